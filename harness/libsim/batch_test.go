package libsim

import (
	"strings"
	"encoding/json"
	"fmt"
	"hash/fnv"
	"io"
	"log"
	"os"
	"path/filepath"
	"sort"
	"testing"
	"time"

	"github.com/Trisia/randomness/simrt/simctl"
)

type Job struct {
	Prop      string  `json:"prop"`
	Tier      string  `json:"tier"`
	Seed      uint64  `json:"seed"`
	I         int     `json:"i"`
	N         int     `json:"n"`
	Out       string  `json:"out"`
	ReplayDir string  `json:"replay_dir"`
	Replay    string  `json:"replay,omitempty"`
	BudgetS   float64 `json:"budget_s"`
	RepoRev   string  `json:"repo_rev"`
	DetCheck  int     `json:"det_check"`
	Mode      string  `json:"mode"` // sim | race
	Dump      bool    `json:"dump,omitempty"`
	MaxCases  int     `json:"max_cases,omitempty"`
}

type Violation struct {
	Prop   string `json:"prop"`
	Clause string `json:"clause"`
	Detail string `json:"detail"`
}

type Found struct {
	Violation
	Workflow  string `json:"workflow"`
	Replay    string `json:"replay"`
	CaseIdx   int    `json:"case_idx"`
	Count     int    `json:"count"`
	Minimised bool   `json:"minimised"`
}

type BatchResult struct {
	Prop          string            `json:"prop"`
	Cases         int               `json:"cases"`
	Planned       int               `json:"planned"`
	Executions    int               `json:"executions"`
	Steps         int64             `json:"steps"`
	Choices       int64             `json:"choices"`
	TraceKeys     []uint64          `json:"trace_keys"`
	Faults        map[string]int    `json:"faults_fired"`
	Probes        map[string]int    `json:"probes"`
	Found         []Found           `json:"found"`
	Samples       []json.RawMessage `json:"samples"`
	WallS         float64           `json:"wall_s"`
	Truncated     bool              `json:"truncated"`
	DetChecked    int               `json:"det_checked"`
	DetMismatch   []string          `json:"det_mismatch,omitempty"`
	ReplayOutcome string            `json:"replay_outcome,omitempty"`
	MaxTasks      int               `json:"max_tasks"`
	Extra         map[string]int    `json:"extra,omitempty"`
	Dump          []string          `json:"dump,omitempty"`
}

type ReplayFile struct {
	Property  string      `json:"property"`
	Clause    string      `json:"clause"`
	Detail    string      `json:"detail"`
	Seed      uint64      `json:"seed"`
	CaseIdx   int         `json:"case_idx"`
	RepoRev   string      `json:"repo_rev"`
	Config    Cfg         `json:"config"`
	CallNames []string    `json:"call_names"`
	TraceHash uint64      `json:"trace_hash"`
	Trace     interface{} `json:"trace,omitempty"`
	Original  *Cfg        `json:"original_config,omitempty"`
}

func TestMain(m *testing.M) {
	if dn, err := os.OpenFile(os.DevNull, os.O_WRONLY, 0); err == nil {
		os.Stdout = dn
	}
	log.SetOutput(io.Discard)
	os.Exit(m.Run())
}

// genPolicy draws a scheduling policy; the behaviour of the sync.Pool
// replacement (always reuse / never / alternate) rides on the policy seed.
func genPolicy(r *simctl.Rand, est int) simctl.Policy {
	p := genPolicy0(r, est)
	p.Pool = []int{0, 0, 0, 1, 2}[p.Seed%5]
	// simulated time passing between steps ("the released task was slow")
	p.Jitter = []int{0, 0, 0, 0, 0, 0, 20, 20, 200, 200}[(p.Seed/5)%10]
	// a CPU quota below the core count: GOMAXPROCS(0) < NumCPU in one run of four
	p.GMP = []int{0, 0, 0, 0, 0, 0, 1, 2, 3, 5}[(p.Seed/50)%10]
	if p.Kind == "first" || p.Kind == "last" {
		p.GMP = []int{0, 0, 1, 2}[r.Intn(4)]
	}
	return p
}

func genPolicy0(r *simctl.Rand, est int) simctl.Policy {
	switch r.Intn(8) {
	case 0, 1, 2:
		return simctl.Policy{Kind: "pct", Seed: r.Uint64(), Depth: 1 + r.Intn(3), Span: est}
	case 3:
		return simctl.Policy{Kind: "sticky", Seed: r.Uint64(), Stick: 50 + r.Intn(45)}
	case 4:
		return simctl.Policy{Kind: "last"}
	default:
		return simctl.Policy{Kind: "random", Seed: r.Uint64()}
	}
}

// Plan generates the run configurations.
func Plan(tier string, seed uint64) []Cfg {
	r := simctl.NewRand(simctl.Mix(seed, 18))
	n := 640
	maxT := 8
	if tier == "thorough" {
		n = 120000
		maxT = 64
	}
	if tier == "racethorough" {
		n = 4000
		maxT = 32
	}
	var light, heavy []int
	for i, c := range Catalogue {
		if c.Heavy {
			heavy = append(heavy, i)
		} else {
			light = append(light, i)
		}
	}
	var out []Cfg
	for i := 0; i < n; i++ {
		c := Cfg{Prop: "C18", QSeed: r.Uint64()}
		light, heavy := light, heavy // (narrowed below for huge and for short inputs, for this case only)
		nin := 1 + r.Intn(3)
		for k := 0; k < nin; k++ {
			// powers of two and sizes just around them included: table and
			// plan sizes are chosen by rounding the length up
			sz := []int{1121, 1200, 1500, 2048, 2500, 3000, 4096, 4097, 5000, 8192}[r.Intn(10)]
			if r.Intn(150) == 0 {
				sz = 125000 // a 10^6-bit sample: size-dependent fast paths only show here
			}
			if r.Intn(110) == 0 {
				sz = []int{1 << 20, 1<<20 + 1, 1<<20 + 4096}[r.Intn(3)] // 2^23 bits and more: size thresholds of parallel or chunked paths
			}
			c.Inputs = append(c.Inputs, InputSpec{N: sz, Seed: r.Uint64() % 16, Kind: []string{"prf", "prf", "biased", "alt", "zeros"}[r.Intn(5)]})
		}
		T := 2 + r.Intn(maxT-1)
		if tier == "thorough" && r.Intn(4) != 0 && T > 12 {
			T = 2 + r.Intn(11)
		}
		// a run is usually built around one "focus" call so that several tasks
		// execute the same function at the same time (shared scratch state of
		// one test shows there), mixed with arbitrary other calls
		focus := light[r.Intn(len(light))]
		if r.Intn(6) == 0 {
			focus = heavy[r.Intn(len(heavy))]
		}
		if r.Intn(12) == 0 {
			// short sequences, down to the standard's minimum of 100 bits: size
			// thresholds inside a test (sparse vs dense tables, parameter
			// selection) sit there; only entry points that admit the length
			minBits := 1 << 30
			for k := range c.Inputs {
				c.Inputs[k].N = []int{13, 16, 25, 40, 63, 64, 100, 127, 128, 200}[r.Intn(10)]
				if b := c.Inputs[k].N * 8; b < minBits {
					minBits = b
				}
			}
			var ok []int
			for i, cd := range Catalogue {
				if cd.MinBits <= minBits && !cd.Heavy {
					ok = append(ok, i)
				}
			}
			light, heavy = ok, ok
			focus = ok[r.Intn(len(ok))]
		}
		big, huge := false, false
		for _, sp := range c.Inputs {
			if sp.N > 5000 {
				big = true
			}
			if sp.N > 200000 {
				huge = true
			}
		}
		if huge {
			// every input of such a case is of that size class (overlapping calls on
			// large inputs are the point), at most two of them
			if len(c.Inputs) > 2 {
				c.Inputs = c.Inputs[:2]
				nin = 2
			}
			for k := range c.Inputs {
				if c.Inputs[k].N <= 200000 {
					c.Inputs[k].N = []int{1 << 20, 1<<20 + 1, 1<<20 + 4096}[r.Intn(3)]
				}
			}
			// linear-time entry points only
			var lin []int
			for i, cd := range Catalogue {
				switch {
				case cd.Heavy, strings.HasPrefix(cd.Name, "registry["), strings.HasPrefix(cd.Name, "Round"), strings.HasPrefix(cd.Name, "DiscreteFourierTransformTestBytes"), strings.HasPrefix(cd.Name, "LinearComplexity"):
				default:
					lin = append(lin, i)
				}
			}
			light = lin
			focus = lin[r.Intn(len(lin))]
			if r.Intn(5) == 0 {
				// the transform is by far the largest consumer of memory at this size
				for i, cd := range Catalogue {
					if cd.Name == "DiscreteFourierTransformTest" {
						focus = i
						break
					}
				}
			} else if r.Intn(4) == 0 {
				for i, cd := range Catalogue {
					if strings.HasPrefix(cd.Name, "FrequencyWithinBlockProto") {
						focus = i
						break
					}
				}
			}
		}
		for t := 0; t < T; t++ {
			ns := 1 + r.Intn(2)
			var steps []Step
			for s := 0; s < ns; s++ {
				call := focus
				if r.Intn(3) == 0 && !(huge && s == 0) {
					// (on huge inputs every caller starts with the focus call: overlap is the point)
					call = light[r.Intn(len(light))]
				}
				if r.Intn(40) == 0 && !big {
					call = heavy[r.Intn(len(heavy))]
				}
				if big && Catalogue[call].Heavy {
					call = light[r.Intn(len(light))]
				}
				in := r.Intn(nin)
				if r.Intn(2) == 0 {
					in = 0 // shared input
				}
				steps = append(steps, Step{Call: call, Input: in})
			}
			c.Tasks = append(c.Tasks, steps)
		}
		if i%8 == 3 && !big {
			// (the refill cases go through the light entry points in turn)
			focus = light[(i/8)%len(light)]
		}
		if i%8 == 3 && !big && !Catalogue[focus].Heavy {
			// one or two callers, each presenting three or four samples in one
			// buffer of its own that it refills in place; consecutive calls stay
			// in one family of entry points (the same test, other parameters)
			c.Refill = true
			if nin < 2 {
				c.Inputs = append(c.Inputs, InputSpec{N: c.Inputs[0].N, Seed: 16 + r.Uint64()%16, Kind: "prf"})
				nin = 2
			}
			for k := range c.Inputs {
				c.Inputs[k].N = c.Inputs[0].N
			}
			fam := func(n string) string {
				if j := strings.IndexAny(n, "(["); j >= 0 {
					return n[:j]
				}
				return n
			}
			var same []int
			for k, cd := range Catalogue {
				if fam(cd.Name) == fam(Catalogue[focus].Name) && !cd.Heavy && cd.MinBits <= c.Inputs[0].N*8 {
					same = append(same, k)
				}
			}
			if len(same) == 0 {
				same = []int{focus}
			}
			c.Tasks = nil
			for t := 0; t < 1+r.Intn(2); t++ {
				var steps []Step
				for s := 0; s < 3+r.Intn(2); s++ {
					call := same[r.Intn(len(same))]
					if Catalogue[focus].Heavy {
						call = focus
					}
					steps = append(steps, Step{Call: call, Input: r.Intn(nin)})
				}
				c.Tasks = append(c.Tasks, steps)
			}
		}
		c.Quantum = []int64{17, 130, 1100, 9000, 70000}[r.Intn(5)]
		if Catalogue[focus].Heavy && c.Quantum < 1000 {
			c.Quantum = 1100
		}
		c.Policy = genPolicy(r, 2000)
		c.Windowed = r.Intn(2) == 0 && !c.Refill
		c.NumCPU = []int{1, 2, 3, 4, 5, 6, 7, 8, 12, 16, 24}[r.Intn(11)]
		if huge {
			// (half of them under a soft memory limit, as GOMEMLIMIT sets it)
			if r.Intn(3) > 0 {
				c.MemLimitMB = 64
			}
			c.Quantum = 70000
			if len(c.Tasks) > 6 {
				c.Tasks = c.Tasks[:6]
			}
		} else if i%13 == 5 && !big {
			// first concurrent users of a fresh process, preempted early and often
			c.Fresh = true
			c.Quantum = []int64{17, 17, 130}[r.Intn(3)]
		}
		out = append(out, c)
	}
	// many overlapping callers of the most memory-hungry calls on the largest
	// inputs (2^23 bits and a little more): whatever bounds or shares large
	// allocations is exercised here with five to six callers at once
	nheavy := 2
	if tier == "thorough" {
		nheavy = 60
	}
	for i := 0; i < nheavy; i++ {
		name := []string{"DiscreteFourierTransformTest", "FrequencyWithinBlockProto(m=1000)", "MatrixRankTest", "ApproximateEntropyProto(m=5)"}[i%4]
		call := -1
		for k, cd := range Catalogue {
			if cd.Name == name {
				call = k
			}
		}
		if call < 0 {
			continue
		}
		c := Cfg{Prop: "C18", QSeed: r.Uint64(), Quantum: 70000, Policy: genPolicy(r, 200), NumCPU: []int{4, 8, 16}[r.Intn(3)]}
		c.Inputs = []InputSpec{{N: 1<<20 + 4096*r.Intn(2), Seed: r.Uint64() % 16, Kind: "prf"}, {N: 1 << 20, Seed: r.Uint64() % 16, Kind: "biased"}}
		for t := 0; t < 5+r.Intn(2); t++ {
			c.Tasks = append(c.Tasks, []Step{{Call: call, Input: t % 2}})
		}
		out = append(out, c)
	}
	// every linear-time entry point once under a very low soft memory limit
	// (4 MiB: thresholds that code derives from the limit are then crossed by a
	// 10^6-bit input), three callers on one shared input; a PRNG of its own
	fr := simctl.NewRand(simctl.Mix(seed, 0xf1c5ed))
	for k, cd := range Catalogue {
		switch {
		case cd.Heavy, strings.HasPrefix(cd.Name, "registry["), strings.HasPrefix(cd.Name, "Round"), strings.HasPrefix(cd.Name, "DiscreteFourierTransform"), strings.HasPrefix(cd.Name, "LinearComplexity"), strings.HasPrefix(cd.Name, "MatrixRank"):
			continue
		}
		c := Cfg{Prop: "C18", QSeed: fr.Uint64(), Quantum: []int64{1100, 9000}[fr.Intn(2)], Policy: genPolicy(fr, 200), NumCPU: []int{2, 4, 8}[fr.Intn(3)], MemLimitMB: 4}
		c.Inputs = []InputSpec{{N: 125000, Seed: fr.Uint64() % 16, Kind: []string{"prf", "biased"}[fr.Intn(2)]}}
		for t := 0; t < 3; t++ {
			c.Tasks = append(c.Tasks, []Step{{Call: k, Input: 0}})
		}
		out = append(out, c)
	}
	return out
}

func cfgKey(c *Cfg) uint64 {
	d := *c
	d.Picks = nil
	b, _ := json.Marshal(d)
	h := fnv.New64a()
	h.Write(b)
	return h.Sum64()
}

// TestRefChild computes one solitary reference result in a fresh process.
func TestRefChild(t *testing.T) {
	req := os.Getenv("VERIF_REF_REQ")
	if req == "" {
		t.Skip("not a reference child")
	}
	if err := RefChildMain(req); err != nil {
		t.Fatal(err)
	}
}

// TestFreshChild runs one configuration in a process that has done nothing else.
func TestFreshChild(t *testing.T) {
	req := os.Getenv("VERIF_FRESH_REQ")
	if req == "" {
		t.Skip("not a fresh child")
	}
	if err := FreshChildMain(t, req); err != nil {
		t.Fatal(err)
	}
}

func TestBatch(t *testing.T) {
	jp := os.Getenv("VERIF_JOB")
	if jp == "" {
		t.Skip("VERIF_JOB not set")
	}
	jb, err := os.ReadFile(jp)
	if err != nil {
		t.Fatal(err)
	}
	var job Job
	if err := json.Unmarshal(jb, &job); err != nil {
		t.Fatal(err)
	}
	sim := job.Mode != "race"
	res := &BatchResult{Prop: job.Prop, Faults: map[string]int{}, Probes: map[string]int{}, Extra: map[string]int{}}
	keys := map[uint64]bool{}
	start := time.Now()
	eval := func(c *Cfg) *Outcome {
		var o *Outcome
		if c.Fresh && sim {
			o = ExecuteFresh(t, c)
			res.Probes["case-run-in-a-fresh-process"]++
		} else {
			o = Execute(t, c, sim)
		}
		res.Executions++
		res.Steps += int64(o.Sim.Steps)
		res.Choices += int64(o.Sim.Choices)
		res.Extra["library_calls"] += o.Calls
		if o.Sim.Tasks > res.MaxTasks {
			res.MaxTasks = o.Sim.Tasks
		}
		return o
	}
	has := func(o *Outcome, clause string) (Mismatch, bool) {
		for _, m := range o.Mismatches {
			if m.Clause == clause {
				return m, true
			}
		}
		return Mismatch{}, false
	}
	names := func() []string {
		var s []string
		for _, c := range Catalogue {
			s = append(s, c.Name)
		}
		return s
	}
	report := func(c *Cfg, idx int, mm Mismatch, o *Outcome) {
		for i := range res.Found {
			if res.Found[i].Clause == mm.Clause {
				res.Found[i].Count++
				return
			}
		}
		cur := *c
		min := false
		if sim && len(res.Found) < 3 {
			cur.Policy = cur.Policy.Recorded()
			cur.Picks = append([]int(nil), o.Sim.Picks...)
			evals := 0
			still := func(x *Cfg) bool {
				if evals > 60 {
					return false
				}
				evals++
				_, ok := has(eval(x), mm.Clause)
				return ok
			}
			if still(&cur) {
				min = true
				// drop tasks from the end, then steps
				for len(cur.Tasks) > 1 {
					x := cur
					x.Tasks = append([][]Step(nil), cur.Tasks[:len(cur.Tasks)-1]...)
					x.Picks = nil
					x.Policy = c.Policy
					if !still(&x) {
						break
					}
					cur = x
				}
				x := cur
				x.Picks = nil
				x.Policy = simctl.Policy{Kind: "first"}
				if still(&x) {
					cur = x
				}
			} else {
				cur = *c
			}
		}
		fo := eval(&cur)
		fm, ok := has(fo, mm.Clause)
		if !ok {
			fm, fo, cur = mm, o, *c
		}
		if cur.Policy.Kind != "recorded" && sim {
			cur.Picks = append([]int(nil), fo.Sim.Picks...)
			cur.Policy = cur.Policy.Recorded()
		}
		rf := ReplayFile{"C18", fm.Clause, fm.Detail, job.Seed, idx, job.RepoRev, cur, names(), fo.Sim.TraceHash, fo.Sim.Trace, c}
		name := fmt.Sprintf("C18-%d-%d-%s.json", job.Seed, idx, sanitize(mm.Clause))
		path := filepath.Join(job.ReplayDir, name)
		b, _ := json.MarshalIndent(rf, "", " ")
		os.MkdirAll(job.ReplayDir, 0755)
		os.WriteFile(path, b, 0644)
		res.Found = append(res.Found, Found{Violation: Violation{"C18", fm.Clause, fm.Detail}, Workflow: job.Mode, Replay: path, CaseIdx: idx, Count: 1, Minimised: min})
	}
	if job.Replay != "" {
		b, err := os.ReadFile(job.Replay)
		if err != nil {
			t.Fatal(err)
		}
		var rf ReplayFile
		if err := json.Unmarshal(b, &rf); err != nil {
			t.Fatal(err)
		}
		o := eval(&rf.Config)
		res.Cases = 1
		if fm, ok := has(o, rf.Clause); ok {
			res.ReplayOutcome = "reproduced"
			if o.Sim.TraceHash != rf.TraceHash {
				res.ReplayOutcome = "reproduced-with-different-trace"
			}
			res.Found = append(res.Found, Found{Violation: Violation{"C18", fm.Clause, fm.Detail}, Workflow: "sim", Replay: job.Replay, CaseIdx: rf.CaseIdx, Count: 1})
		} else {
			res.ReplayOutcome = "not-reproduced"
			for _, m := range o.Mismatches {
				res.Found = append(res.Found, Found{Violation: Violation{"C18", m.Clause, m.Detail}, Workflow: "sim", Replay: job.Replay, CaseIdx: rf.CaseIdx, Count: 1})
			}
		}
	} else {
		plan := Plan(job.Tier, job.Seed)
		res.Planned = len(plan)
		mine := 0
		for idx := range plan {
			if idx%job.N != job.I {
				continue
			}
			if job.BudgetS > 0 && time.Since(start).Seconds() > job.BudgetS {
				res.Truncated = true
				break
			}
			mine++
			c := plan[idx]
			if !sim {
				// under the race detector a 2^23-bit transform costs gigabytes of
				// shadow memory per caller: two callers are enough for the detector
				// (it needs two unordered accesses, not many), and only the process
				// with most CPUs takes such cases at all
				huge := false
				for _, sp := range c.Inputs {
					if sp.N > 200000 {
						huge = true
					}
				}
				if huge {
					if job.I != job.N-1 {
						continue
					}
					if len(c.Tasks) > 2 {
						c.Tasks = c.Tasks[:2]
					}
				}
			}
			o := eval(&c)
			res.Cases++
			if job.Dump {
				res.Dump = append(res.Dump, fmt.Sprintf("%d %x steps=%d mism=%d", idx, o.Sim.TraceHash, o.Sim.Steps, len(o.Mismatches)))
			}
			if job.MaxCases > 0 && mine >= job.MaxCases {
				break
			}
			if o.Sim.Choices > 0 {
				keys[cfgKey(&c)^o.Sim.TraceHash] = true
			}
			res.Probes[fmt.Sprintf("quantum-%d", c.Quantum)]++
			res.Probes["policy-"+c.Policy.Kind]++
			res.Probes[fmt.Sprintf("numcpu-%d", c.NumCPU)]++
			for _, sp := range c.Inputs {
				if sp.N > 200000 {
					res.Probes["input-of-2^23-bits-or-more"]++
					break
				}
				if sp.N <= 200 {
					res.Probes["input-of-1600-bits-or-fewer"]++
					break
				}
			}
			if c.Windowed {
				res.Probes["inputs-are-windows-of-one-buffer"]++
			}
			if len(c.Tasks) > 8 {
				res.Probes["more-than-8-callers"]++
			}
			if o.Sim.Steps > 2*len(c.Tasks)+2 {
				res.Probes["run-with-mid-call-preemption"]++
			}
			if sim && job.DetCheck > 0 && mine%job.DetCheck == 0 {
				o2 := Execute(t, &c, true)
				res.DetChecked++
				if o2.Sim.TraceHash != o.Sim.TraceHash {
					res.DetMismatch = append(res.DetMismatch, fmt.Sprintf("case %d: trace %x vs %x", idx, o.Sim.TraceHash, o2.Sim.TraceHash))
				}
			}
			if len(res.Samples) < 2 && len(o.Mismatches) == 0 && mine%5 == 1 {
				var desc [][]string
				for _, steps := range c.Tasks {
					var d []string
					for _, s := range steps {
						d = append(d, fmt.Sprintf("%s(in%d)", Catalogue[s.Call].Name, s.Input))
					}
					desc = append(desc, d)
				}
				tr := o.Sim.Trace
				if len(tr) > 10 {
					tr = tr[:10]
				}
				b, _ := json.Marshal(map[string]interface{}{"callers": desc, "inputs": c.Inputs, "quantum": c.Quantum, "policy": c.Policy, "steps": o.Sim.Steps, "choices": o.Sim.Choices, "trace_head": tr})
				res.Samples = append(res.Samples, b)
			}
			seen := map[string]bool{}
			for _, m := range o.Mismatches {
				if !seen[m.Clause] {
					seen[m.Clause] = true
					report(&c, idx, m, o)
				}
			}
		}
	}
	for k := range keys {
		res.TraceKeys = append(res.TraceKeys, k)
	}
	sort.Slice(res.TraceKeys, func(i, j int) bool { return res.TraceKeys[i] < res.TraceKeys[j] })
	res.WallS = time.Since(start).Seconds()
	b, _ := json.Marshal(res)
	if err := os.WriteFile(job.Out, b, 0644); err != nil {
		t.Fatal(err)
	}
}

func sanitize(s string) string {
	b := []byte(s)
	for i, c := range b {
		if !(c >= 'a' && c <= 'z' || c >= 'A' && c <= 'Z' || c >= '0' && c <= '9' || c == '-') {
			b[i] = '_'
		}
	}
	return string(b)
}
