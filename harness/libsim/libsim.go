// Package libsim is the lib-sim engine (property C18, DESIGN.md §4.8): tasks
// call library test functions concurrently under a quantum-preemptive seeded
// scheduler (profile "preempt": a tick at every loop head of the library), and
// every result is compared with the same call made alone.
package libsim

import (
	"bytes"
	"encoding/json"
	"fmt"
	"hash/fnv"
	"math"
	"os"
	"os/exec"
	"path/filepath"
	"runtime/debug"
	"sync"
	"testing"
	"time"

	"github.com/Trisia/randomness"
	"github.com/Trisia/randomness/detect"
	"github.com/Trisia/randomness/simrt"
	"github.com/Trisia/randomness/simrt/simctl"
)

// Res is a call result in comparable form.
type Res struct {
	Vals  []uint64 `json:"vals,omitempty"`
	Flags []bool   `json:"flags,omitempty"`
	Panic string   `json:"panic,omitempty"`
}

func (a Res) Equal(b Res) bool {
	if a.Panic != b.Panic || len(a.Vals) != len(b.Vals) || len(a.Flags) != len(b.Flags) {
		return false
	}
	for i := range a.Vals {
		if a.Vals[i] != b.Vals[i] {
			return false
		}
	}
	for i := range a.Flags {
		if a.Flags[i] != b.Flags[i] {
			return false
		}
	}
	return true
}

func (a Res) String() string {
	if a.Panic != "" {
		return "panic(" + a.Panic + ")"
	}
	s := "["
	for i, v := range a.Vals {
		if i > 0 {
			s += " "
		}
		s += fmt.Sprintf("%.9g", math.Float64frombits(v))
		if i >= 5 {
			s += " ..."
			break
		}
	}
	return s + "]"
}

func f2(p, q float64) Res { return Res{Vals: []uint64{math.Float64bits(p), math.Float64bits(q)}} }
func f4(a, b, c, d float64) Res {
	return Res{Vals: []uint64{math.Float64bits(a), math.Float64bits(b), math.Float64bits(c), math.Float64bits(d)}}
}
func tr(r *randomness.TestResult) Res {
	return Res{Vals: []uint64{math.Float64bits(r.P), math.Float64bits(r.Q), math.Float64bits(r.P2), math.Float64bits(r.Q2)}, Flags: []bool{r.Pass}}
}
func trs(rs []*randomness.TestResult) Res {
	var out Res
	for _, r := range rs {
		x := tr(r)
		out.Vals = append(out.Vals, x.Vals...)
		out.Flags = append(out.Flags, x.Flags...)
	}
	return out
}

// Input is one shared input: the same backing arrays are handed to every task
// that uses it.
type Input struct {
	Name  string
	Bytes []byte
	Bits  []bool
	hB    uint64
	hb    uint64
}

func hashBytes(b []byte) uint64 { h := fnv.New64a(); h.Write(b); return h.Sum64() }
func hashBits(b []bool) uint64 {
	h := uint64(14695981039346656037)
	for _, x := range b {
		if x {
			h ^= 1
		}
		h *= 1099511628211
	}
	return h
}

// NewInput builds an input of n bytes.
func NewInput(name string, n int, seed uint64, kind string) *Input {
	b := make([]byte, n)
	r := simctl.NewRand(seed)
	for i := range b {
		switch kind {
		case "zeros":
			b[i] = 0
		case "alt":
			b[i] = 0x55
		case "biased":
			b[i] = byte(r.Uint64() & r.Uint64())
		default:
			b[i] = byte(r.Uint64())
		}
	}
	in := &Input{Name: name, Bytes: b}
	in.Bits = make([]bool, 0, n*8)
	for _, x := range b {
		for k := 7; k >= 0; k-- {
			in.Bits = append(in.Bits, x>>uint(k)&1 == 1)
		}
	}
	in.hB, in.hb = hashBytes(in.Bytes), hashBits(in.Bits)
	return in
}

// Modified reports whether a call changed the caller's slices.
func (in *Input) Modified() string {
	if hashBytes(in.Bytes) != in.hB {
		return "byte slice"
	}
	if hashBits(in.Bits) != in.hb {
		return "bit slice"
	}
	return ""
}

// CallDef is one entry of the call catalogue.
type CallDef struct {
	Name    string
	MinBits int
	Heavy   bool
	F       func(in *Input) Res
}

// Catalogue lists every entry point exercised.
var Catalogue []CallDef

func add(name string, minBits int, heavy bool, f func(in *Input) Res) {
	Catalogue = append(Catalogue, CallDef{name, minBits, heavy, f})
}

func init() {
	for i := range randomness.TestMethodArr {
		idx := i
		min := 1024
		if idx == 13 {
			min = 7 * 1281
		}
		add(fmt.Sprintf("registry[%d]", idx), min, idx == 12, func(in *Input) Res { return tr(randomness.TestMethodArr[idx].Runner(in.Bytes)) })
	}
	add("Round12", 1024, false, func(in *Input) Res { return trs(detect.Round12(in.Bytes)) })
	add("Round15", 7*1281, true, func(in *Input) Res { return trs(detect.Round15(in.Bytes)) })
	add("MonoBitFrequencyTestBytes", 100, false, func(in *Input) Res { return f2(randomness.MonoBitFrequencyTestBytes(in.Bytes)) })
	add("MonoBitFrequencyTest", 100, false, func(in *Input) Res { return f2(randomness.MonoBitFrequencyTest(in.Bits)) })
	for _, m := range []int{100, 1000} {
		mm := m
		add(fmt.Sprintf("FrequencyWithinBlockProto(m=%d)", mm), 1000, false, func(in *Input) Res { return f2(randomness.FrequencyWithinBlockProto(in.Bits, mm)) })
	}
	for _, m := range []int{2, 4, 8} {
		mm := m
		add(fmt.Sprintf("PokerTestBytes(m=%d)", mm), 128, false, func(in *Input) Res { return f2(randomness.PokerTestBytes(in.Bytes, mm)) })
		add(fmt.Sprintf("PokerProto(m=%d)", mm), 128, false, func(in *Input) Res { return f2(randomness.PokerProto(in.Bits, mm)) })
	}
	for _, m := range []int{2, 3, 5, 7} {
		mm := m
		add(fmt.Sprintf("OverlappingProto(m=%d)", mm), 128, false, func(in *Input) Res { return f4(randomness.OverlappingTemplateMatchingProto(in.Bits, mm)) })
	}
	add("RunsTest", 128, false, func(in *Input) Res { return f2(randomness.RunsTest(in.Bits)) })
	add("RunsDistributionTest", 128, false, func(in *Input) Res { return f2(randomness.RunsDistributionTest(in.Bits)) })
	add("LongestRun(ones)", 128, false, func(in *Input) Res { return f2(randomness.LongestRunOfOnesInABlockTest(in.Bits, true)) })
	add("LongestRun(zeros)", 128, false, func(in *Input) Res { return f2(randomness.LongestRunOfOnesInABlockTest(in.Bits, false)) })
	for _, k := range []int{3, 7, 15} {
		kk := k
		add(fmt.Sprintf("BinaryDerivativeProto(k=%d)", kk), 128, false, func(in *Input) Res { return f2(randomness.BinaryDerivativeProto(in.Bits, kk)) })
		add(fmt.Sprintf("BinaryDerivativeTestBytes(k=%d)", kk), 128, false, func(in *Input) Res { return f2(randomness.BinaryDerivativeTestBytes(in.Bytes, kk)) })
	}
	for _, d := range []int{1, 2, 8, 16, 32} {
		dd := d
		add(fmt.Sprintf("AutocorrelationProto(d=%d)", dd), 128, false, func(in *Input) Res { return f2(randomness.AutocorrelationProto(in.Bits, dd)) })
	}
	add("MatrixRankTest", 1024, false, func(in *Input) Res { return f2(randomness.MatrixRankTest(in.Bits)) })
	add("MatrixRankTestBytes", 1024, false, func(in *Input) Res { return f2(randomness.MatrixRankTestBytes(in.Bytes, 32, 32)) })
	// the parameterised entry points at other matrix sizes (whatever they return, they return it purely)
	add("MatrixRankProto(16x16)", 1024, false, func(in *Input) Res { return f2(randomness.MatrixRankProto(in.Bits, 16, 16)) })
	add("MatrixRankTestBytes(8x8)", 1024, false, func(in *Input) Res { return f2(randomness.MatrixRankTestBytes(in.Bytes, 8, 8)) })
	add("MatrixRankProto(32x31)", 1024, false, func(in *Input) Res { return f2(randomness.MatrixRankProto(in.Bits, 32, 31)) })
	add("MatrixRankProto(32x16)", 1024, false, func(in *Input) Res { return f2(randomness.MatrixRankProto(in.Bits, 32, 16)) })
	add("CumulativeTest(fwd)", 128, false, func(in *Input) Res { return f2(randomness.CumulativeTest(in.Bits, true)) })
	add("CumulativeTest(bwd)", 128, false, func(in *Input) Res { return f2(randomness.CumulativeTest(in.Bits, false)) })
	for _, m := range []int{2, 5, 7} {
		mm := m
		add(fmt.Sprintf("ApproximateEntropyProto(m=%d)", mm), 128, false, func(in *Input) Res { return f2(randomness.ApproximateEntropyProto(in.Bits, mm)) })
	}
	for _, m := range []int{500, 1000} {
		mm := m
		add(fmt.Sprintf("LinearComplexityProto(m=%d)", mm), 1000, true, func(in *Input) Res { return f2(randomness.LinearComplexityProto(in.Bits, mm)) })
	}
	add("MaurerUniversalTest", 7*1281, false, func(in *Input) Res { return f2(randomness.MaurerUniversalTest(in.Bits)) })
	add("DiscreteFourierTransformTest", 128, false, func(in *Input) Res { return f2(randomness.DiscreteFourierTransformTest(in.Bits)) })
	add("DiscreteFourierTransformTestBytes", 128, false, func(in *Input) Res { return f2(randomness.DiscreteFourierTransformTestBytes(in.Bytes)) })
}

// Invoke runs a catalogue entry, turning a panic into a value.
func Invoke(c *CallDef, in *Input) (res Res) {
	defer func() {
		if r := recover(); r != nil {
			res = Res{Panic: fmt.Sprint(r)}
		}
	}()
	return c.F(in)
}

// Step is one call a task makes.
type Step struct {
	Call  int `json:"call"`
	Input int `json:"input"`
}

// Cfg is one simulated run.
type Cfg struct {
	Prop    string        `json:"prop"`
	Inputs  []InputSpec   `json:"inputs"`
	Tasks   [][]Step      `json:"tasks"`
	Quantum int64         `json:"quantum"`
	QSeed   uint64        `json:"q_seed"`
	Policy  simctl.Policy `json:"policy"`
	Picks   []int         `json:"picks,omitempty"`
	// Windowed: the inputs are consecutive windows of one backing buffer
	// (cap > len), as a caller slicing one long stream would pass them
	Windowed bool `json:"windowed,omitempty"`
	// NumCPU is what runtime.NumCPU() / GOMAXPROCS(0) report to the library
	// (0: 4): a pure test may not depend on it
	NumCPU int `json:"num_cpu,omitempty"`
	// Fresh: the run happens in a process of its own that has not touched the
	// library before (lazily built tables, once-initialised state are in the
	// condition the very first concurrent users of a process find them in)
	Fresh bool `json:"fresh,omitempty"`
	// MemLimitMB > 0: the run happens under a soft memory limit of that many
	// MiB (debug.SetMemoryLimit, what GOMEMLIMIT sets)
	MemLimitMB int `json:"mem_limit_mb,omitempty"`
	// Refill: every caller owns one buffer (bytes and bits) that it refills in
	// place with the step's input before each call - the way a caller that
	// reuses its read buffer presents successive samples. All inputs of such a
	// case have the same length.
	Refill bool `json:"refill,omitempty"`
}

// InputSpec describes an input.
type InputSpec struct {
	N    int    `json:"n"`
	Seed uint64 `json:"seed"`
	Kind string `json:"kind"`
}

// Mismatch is one observed divergence.
type Mismatch struct {
	Clause string
	Detail string
}

var solo = struct {
	sync.Mutex
	m map[string]Res
}{m: map[string]Res{}}

func soloKey(call int, sp InputSpec) string {
	return fmt.Sprintf("%d|%d|%d|%s", call, sp.N, sp.Seed, sp.Kind)
}

// Solo returns the result of the call made alone. "Alone" means in a process
// that has done nothing else: the reference is computed by re-executing this
// test binary as a fresh child process for every distinct (call, input), so
// that state the library keeps between calls (a cache, a memoised table, a
// pooled buffer) cannot make the reference agree with a polluted result.
// Results are memoised in memory and, across the engine processes of one
// check, in the directory VERIF_REF_DIR. With VERIF_REF_DIR unset the
// reference is computed in-process (race monitor).
func Solo(call int, sp InputSpec) Res {
	k := soloKey(call, sp)
	solo.Lock()
	r, ok := solo.m[k]
	solo.Unlock()
	if ok {
		return r
	}
	dir := os.Getenv("VERIF_REF_DIR")
	if dir == "" {
		in := NewInput("solo", sp.N, sp.Seed, sp.Kind)
		r = Invoke(&Catalogue[call], in)
	} else {
		r = soloChild(dir, call, sp)
	}
	solo.Lock()
	solo.m[k] = r
	solo.Unlock()
	return r
}

// RefRequest is what a reference child process is asked to compute.
type RefRequest struct {
	Call int       `json:"call"`
	Spec InputSpec `json:"spec"`
	Out  string    `json:"out"`
}

func soloChild(dir string, call int, sp InputSpec) Res {
	h := fnv.New64a()
	h.Write([]byte(Catalogue[call].Name + "|" + soloKey(call, sp)))
	file := filepath.Join(dir, fmt.Sprintf("%016x.json", h.Sum64()))
	if b, err := os.ReadFile(file); err == nil {
		var r Res
		if json.Unmarshal(b, &r) == nil {
			return r
		}
	}
	tmp := fmt.Sprintf("%s.%d.tmp", file, os.Getpid())
	req, _ := json.Marshal(RefRequest{Call: call, Spec: sp, Out: tmp})
	cmd := exec.Command(os.Args[0], "-test.run", "TestRefChild", "-test.timeout", "10m")
	cmd.Env = append(os.Environ(), "VERIF_REF_REQ="+string(req), "VERIF_JOB=", "VERIF_REF_DIR=")
	outb, err := cmd.CombinedOutput()
	b, rerr := os.ReadFile(tmp)
	if err != nil || rerr != nil {
		panic(fmt.Sprintf("libsim: reference child failed for %s: %v %v\n%s", Catalogue[call].Name, err, rerr, outb))
	}
	var r Res
	if err := json.Unmarshal(b, &r); err != nil {
		panic("libsim: reference child wrote garbage: " + err.Error())
	}
	os.Rename(tmp, file)
	return r
}

// RefChildMain is the body of the reference child process.
func RefChildMain(reqJSON string) error {
	var req RefRequest
	if err := json.Unmarshal([]byte(reqJSON), &req); err != nil {
		return err
	}
	in := NewInput("solo", req.Spec.N, req.Spec.Seed, req.Spec.Kind)
	r := Invoke(&Catalogue[req.Call], in)
	b, _ := json.Marshal(r)
	return os.WriteFile(req.Out, b, 0644)
}

// Outcome of a run.
type Outcome struct {
	Sim        simctl.Result
	Mismatches []Mismatch
	Calls      int
}

// FreshRequest is what a fresh child process is asked to run: one
// configuration, with the solitary reference results it needs.
type FreshRequest struct {
	Cfg  Cfg            `json:"cfg"`
	Solo map[string]Res `json:"solo"`
	Out  string         `json:"out"`
}

// ExecuteFresh runs c under the simulator in a fresh child process.
func ExecuteFresh(t *testing.T, c *Cfg) *Outcome {
	req := FreshRequest{Cfg: *c, Solo: map[string]Res{}}
	req.Cfg.Fresh = false
	for _, steps := range c.Tasks {
		for _, s := range steps {
			req.Solo[soloKey(s.Call, c.Inputs[s.Input])] = Solo(s.Call, c.Inputs[s.Input])
		}
	}
	f, err := os.CreateTemp(".", "fresh-*.json")
	if err != nil {
		t.Fatal(err)
	}
	reqPath, _ := filepath.Abs(f.Name())
	req.Out = reqPath + ".out"
	b, _ := json.Marshal(req)
	f.Write(b)
	f.Close()
	defer os.Remove(reqPath)
	defer os.Remove(req.Out)
	cmd := exec.Command(os.Args[0], "-test.run", "TestFreshChild", "-test.timeout", "30m")
	cmd.Env = append(os.Environ(), "VERIF_FRESH_REQ="+reqPath, "VERIF_JOB=", "VERIF_REF_DIR=", "VERIF_REF_REQ=")
	outb, err := cmd.CombinedOutput()
	ob, rerr := os.ReadFile(req.Out)
	var o Outcome
	if rerr != nil || json.Unmarshal(ob, &o) != nil {
		msg := string(outb)
		if i := indexOf(msg, "panic:"); i >= 0 {
			msg = msg[i:]
		} else if i := indexOf(msg, "fatal error:"); i >= 0 {
			msg = msg[i:]
		}
		if len(msg) > 1200 {
			msg = msg[:1200]
		}
		if err == nil || indexOf(string(outb), "SIMCTL WATCHDOG") >= 0 {
			t.Fatalf("fresh child gave no result: %v\n%s", err, msg)
		}
		return &Outcome{Mismatches: []Mismatch{{"process-crash", fmt.Sprintf("a fresh process running this case died: %v: %s", err, msg)}}}
	}
	return &o
}

func indexOf(s, sub string) int {
	for i := 0; i+len(sub) <= len(s); i++ {
		if s[i:i+len(sub)] == sub {
			return i
		}
	}
	return -1
}

// FreshChildMain is the body of a fresh child process.
func FreshChildMain(t *testing.T, reqPath string) error {
	b, err := os.ReadFile(reqPath)
	if err != nil {
		return err
	}
	var req FreshRequest
	if err := json.Unmarshal(b, &req); err != nil {
		return err
	}
	solo.Lock()
	for k, v := range req.Solo {
		solo.m[k] = v
	}
	solo.Unlock()
	o := Execute(t, &req.Cfg, true)
	ob, _ := json.Marshal(o)
	return os.WriteFile(req.Out, ob, 0644)
}

// Execute runs one configuration. sim=false runs the same workload with real
// goroutines and no controller (race monitor).
func Execute(t *testing.T, c *Cfg, sim bool) *Outcome {
	ins := make([]*Input, len(c.Inputs))
	for i, sp := range c.Inputs {
		ins[i] = NewInput(fmt.Sprintf("in%d", i), sp.N, sp.Seed, sp.Kind)
	}
	var backB []byte
	var backb []bool
	var hBackB, hBackb uint64
	if c.Windowed {
		// re-home the inputs as adjacent windows of one buffer, plus a guard
		// region behind the last one
		for _, in := range ins {
			backB = append(backB, in.Bytes...)
			backb = append(backb, in.Bits...)
		}
		g := simctl.NewRand(c.QSeed ^ 0x6a)
		for k := 0; k < 64; k++ {
			v := g.Uint64()
			backB = append(backB, byte(v))
			backb = append(backb, v&1 == 1)
		}
		oB, ob := 0, 0
		for _, in := range ins {
			in.Bytes = backB[oB : oB+len(in.Bytes)]
			in.Bits = backb[ob : ob+len(in.Bits)]
			oB += len(in.Bytes)
			ob += len(in.Bits)
		}
		hBackB, hBackb = hashBytes(backB), hashBits(backb)
	}
	// solitary results first, outside the run
	want := make([][]Res, len(c.Tasks))
	for ti, steps := range c.Tasks {
		want[ti] = make([]Res, len(steps))
		for si, s := range steps {
			want[ti][si] = Solo(s.Call, c.Inputs[s.Input])
		}
	}
	out := &Outcome{}
	if c.MemLimitMB > 0 {
		old := debug.SetMemoryLimit(int64(c.MemLimitMB) << 20)
		defer debug.SetMemoryLimit(old)
	}
	var mu sync.Mutex
	got := make([][]Res, len(c.Tasks))
	for i := range got {
		got[i] = make([]Res, len(c.Tasks[i]))
	}
	taskBody := func(ti int) {
		var own *Input
		if c.Refill {
			own = &Input{Name: fmt.Sprintf("own%d", ti), Bytes: make([]byte, len(ins[0].Bytes)), Bits: make([]bool, len(ins[0].Bits))}
		}
		for si, s := range c.Tasks[ti] {
			arg := ins[s.Input]
			if own != nil {
				copy(own.Bytes, arg.Bytes)
				copy(own.Bits, arg.Bits)
				arg = own
			}
			r := Invoke(&Catalogue[s.Call], arg)
			if own != nil && (!bytes.Equal(own.Bytes, ins[s.Input].Bytes) || hashBits(own.Bits) != hashBits(ins[s.Input].Bits)) {
				mu.Lock()
				out.Mismatches = append(out.Mismatches, Mismatch{"input-modified", fmt.Sprintf("caller %d's own buffer was modified by %s", ti, Catalogue[s.Call].Name)})
				mu.Unlock()
			}
			mu.Lock()
			got[ti][si] = r
			out.Calls++
			mu.Unlock()
		}
	}
	if sim {
		body := func() {
			var wg sync.WaitGroup
			for ti := range c.Tasks {
				wg.Add(1)
				tt := ti
				go simrt.Spawn(simrt.Child(fmt.Sprintf("caller%d", tt)), func() { defer wg.Done(); taskBody(tt) })
			}
			wg.Wait()
		}
		ncpu := c.NumCPU
		if ncpu <= 0 {
			ncpu = 4
		}
		opt := simctl.Options{NumCPU: ncpu, Policy: c.Policy, Picks: c.Picks, Quantum: c.Quantum, QRand: simctl.NewRand(c.QSeed), QGrow: 1500, MaxSteps: 3000000, KeepTrace: 200, WallLimit: 20 * time.Minute}
		out.Sim = simctl.Run(t, opt, body)
		for _, p := range out.Sim.Panics {
			out.Mismatches = append(out.Mismatches, Mismatch{"panic", fmt.Sprintf("task %s panicked: %s", p.ID, p.Panic)})
		}
		if !out.Sim.MainReturned && len(out.Sim.Panics) == 0 {
			out.Mismatches = append(out.Mismatches, Mismatch{"hang", fmt.Sprintf("callers did not finish after %d steps", out.Sim.Steps)})
			return out
		}
	} else {
		var wg sync.WaitGroup
		for ti := range c.Tasks {
			wg.Add(1)
			go func(tt int) { defer wg.Done(); taskBody(tt) }(ti)
		}
		done := make(chan struct{})
		go func() { wg.Wait(); close(done) }()
		select {
		case <-done:
		case <-time.After(3 * time.Minute):
			// real goroutines: callers that block each other for good must not
			// block the monitor process
			out.Mismatches = append(out.Mismatches, Mismatch{"hang", "concurrent callers (real goroutines) did not finish within 3 minutes"})
			return out
		}
	}
	for ti, steps := range c.Tasks {
		for si, s := range steps {
			if !got[ti][si].Equal(want[ti][si]) {
				out.Mismatches = append(out.Mismatches, Mismatch{"concurrent-result-differs:" + Catalogue[s.Call].Name,
					fmt.Sprintf("caller %d call %d %s on input %d: concurrent result %s, solitary result %s", ti, si, Catalogue[s.Call].Name, s.Input, got[ti][si], want[ti][si])})
			}
		}
	}
	if c.Windowed && (hashBytes(backB) != hBackB || hashBits(backb) != hBackb) {
		clean := true
		for _, in := range ins {
			if in.Modified() != "" {
				clean = false
			}
		}
		if clean {
			// every window is intact, so the write went past the end of the last one
			out.Mismatches = append(out.Mismatches, Mismatch{"input-modified", "memory of the caller behind the last input window (cap > len) was overwritten"})
		}
	}
	for i, in := range ins {
		if what := in.Modified(); what != "" {
			users := ""
			for ti, steps := range c.Tasks {
				for _, s := range steps {
					if s.Input == i {
						users += fmt.Sprintf(" caller%d:%s", ti, Catalogue[s.Call].Name)
					}
				}
			}
			out.Mismatches = append(out.Mismatches, Mismatch{"input-modified", fmt.Sprintf("the caller's %s of input %d was modified; used by:%s", what, i, users)})
		}
	}
	return out
}
