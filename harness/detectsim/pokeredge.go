package detectsim

import "github.com/Trisia/randomness/simrt/simctl"

// Poker-boundary contents. The single-shot detection only shows its verdict,
// so a slip in the statistic (a miscounted tail byte, an integer division, a
// rounded P-value) is visible only on contents whose P-value sits next to
// alpha. For a length nb and the documented pattern length m the statistic is
// V = K*S/N - N with K = 2^m cells, N patterns and S the sum of squared cell
// counts; P decreases in S. pokerEdgeCounts builds a cell histogram whose S is
// the largest value with P >= alpha (side above) or the smallest with
// P < alpha (side below): the two lattice points closest to the decision
// boundary that exist at this length.

func pokerP(K, N int, S int64) float64 {
	V := float64(K)/float64(N)*float64(S) - float64(N)
	return GammaQ(float64(K-1)/2, V/2)
}

// pokerEdgeCounts returns K cell counts summing to N with the targeted sum of
// squares, or nil if the construction did not reach it.
func pokerEdgeCounts(K, N int, above bool, r *simctl.Rand) []int {
	c := make([]int, K)
	for i := range c {
		c[i] = N / K
	}
	for i := 0; i < N%K; i++ {
		c[i]++
	}
	var smin int64
	for _, x := range c {
		smin += int64(x) * int64(x)
	}
	smax := int64(N) * int64(N)
	if pokerP(K, N, smin) < alpha || pokerP(K, N, smax) >= alpha {
		return nil
	}
	// smallest S (any parity) with P < alpha, by bisection
	lo, hi := smin, smax // P(lo) >= alpha, P(hi) < alpha
	for hi-lo > 1 {
		mid := lo + (hi-lo)/2
		if pokerP(K, N, mid) < alpha {
			hi = mid
		} else {
			lo = mid
		}
	}
	// S has the parity of N (sum of squares = sum of counts mod 2)
	par := int64(N) & 1
	target := hi
	if above {
		target = lo
		if target&1 != par {
			target--
		}
	} else if target&1 != par {
		target++
	}
	if target < smin {
		return nil
	}
	S := smin
	for iter := 0; iter < 200000 && S != target; iter++ {
		i, j := r.Intn(K), r.Intn(K)
		if i == j || c[j] == 0 {
			continue
		}
		// move one pattern from cell j to cell i
		d := int64(2 * (c[i] - c[j] + 1))
		if d < 0 || S+d > target {
			if d == 0 || (d < 0 && S+d >= smin && r.Intn(8) == 0) {
				c[i]++
				c[j]--
				S += d
			}
			continue
		}
		c[i]++
		c[j]--
		S += d
	}
	if S != target {
		return nil
	}
	return c
}

// pokerEdgeBytes realises the histogram as nb bytes: the patterns in a seeded
// random order, packed most-significant-bit first.
func pokerEdgeBytes(nb, m int, above bool, seed uint64) []byte {
	r := simctl.NewRand(seed)
	K := 1 << uint(m)
	N := nb * 8 / m
	c := pokerEdgeCounts(K, N, above, r)
	if c == nil {
		return nil
	}
	units := make([]byte, 0, N)
	for v, k := range c {
		for i := 0; i < k; i++ {
			units = append(units, byte(v))
		}
	}
	for i := len(units) - 1; i > 0; i-- {
		j := r.Intn(i + 1)
		units[i], units[j] = units[j], units[i]
	}
	out := make([]byte, nb)
	per := 8 / m
	for i := 0; i < nb; i++ {
		var b byte
		for k := 0; k < per; k++ {
			b = b<<uint(m) | units[i*per+k]
		}
		out[i] = b
	}
	return out
}
