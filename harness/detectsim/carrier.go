package detectsim

import (
	"bufio"
	"bytes"
	"github.com/Trisia/randomness/simrt"
	"io"
	"os"
	"sync"
)

// Carriers: what kind of Go object hands the stream to the workflow. The
// simulated device (SimSource) is a plain io.Reader; real callers also pass
// in-memory readers (io.ReaderAt + io.Seeker + io.WriterTo + Len), buffered
// readers, regular files and pipes or device nodes (an *os.File whose Stat
// size says nothing). Code that inspects the dynamic type of its source must
// keep the property for all of them, and for a source that is not positioned
// at its start (a header was consumed before the detection).

// lockedBytes is a bytes.Reader made safe for concurrent use (the Fast
// workflows' precondition) that still offers every optional interface of the
// original.
type lockedBytes struct {
	mu sync.Mutex
	r  *bytes.Reader
}

func (l *lockedBytes) Read(p []byte) (int, error) {
	l.mu.Lock()
	defer l.mu.Unlock()
	return l.r.Read(p)
}
func (l *lockedBytes) ReadAt(p []byte, off int64) (int, error) { return l.r.ReadAt(p, off) }
func (l *lockedBytes) Seek(off int64, whence int) (int64, error) {
	l.mu.Lock()
	defer l.mu.Unlock()
	return l.r.Seek(off, whence)
}
func (l *lockedBytes) Len() int {
	l.mu.Lock()
	defer l.mu.Unlock()
	return l.r.Len()
}
func (l *lockedBytes) Size() int64 { return l.r.Size() }
func (l *lockedBytes) WriteTo(w io.Writer) (int64, error) {
	l.mu.Lock()
	defer l.mu.Unlock()
	return l.r.WriteTo(w)
}

// chunkedWriterTo is an in-memory source of the "chunk queue / rope" kind: it
// has Read, Len and WriteTo like bytes.Reader, but its WriteTo hands the data
// over in several Write calls (one per internal chunk), which io.WriterTo
// allows. Safe for concurrent use.
type chunkedWriterTo struct {
	mu    sync.Mutex
	data  []byte
	pos   int
	chunk int
}

func (c *chunkedWriterTo) Read(p []byte) (int, error) {
	c.mu.Lock()
	defer c.mu.Unlock()
	if c.pos >= len(c.data) {
		return 0, io.EOF
	}
	n := copy(p, c.data[c.pos:])
	c.pos += n
	return n, nil
}

func (c *chunkedWriterTo) Len() int {
	c.mu.Lock()
	defer c.mu.Unlock()
	return len(c.data) - c.pos
}

func (c *chunkedWriterTo) WriteTo(w io.Writer) (int64, error) {
	var total int64
	for {
		c.mu.Lock()
		if c.pos >= len(c.data) {
			c.mu.Unlock()
			return total, nil
		}
		end := c.pos + c.chunk
		if end > len(c.data) {
			end = len(c.data)
		}
		p := c.data[c.pos:end]
		c.pos = end
		c.mu.Unlock()
		n, err := w.Write(p)
		total += int64(n)
		if err != nil {
			return total, err
		}
		if n != len(p) {
			return total, io.ErrShortWrite
		}
	}
}

// fifoSource is a driver-side queue in front of a device: Read delivers the
// whole stream in short pieces, Len reports the bytes buffered right now (never
// more than the queue holds), not the bytes the stream still has.
type fifoSource struct {
	mu   sync.Mutex
	data []byte
	pos  int
	cap  int
}

func (f *fifoSource) Read(p []byte) (int, error) {
	f.mu.Lock()
	defer f.mu.Unlock()
	if f.pos >= len(f.data) {
		return 0, io.EOF
	}
	n := len(p)
	if n > 997 {
		n = 997
	}
	n = copy(p[:n], f.data[f.pos:])
	f.pos += n
	return n, nil
}

func (f *fifoSource) Len() int {
	f.mu.Lock()
	defer f.mu.Unlock()
	n := len(f.data) - f.pos
	if n > f.cap {
		n = f.cap
	}
	return n
}

// readerFunc adapts a function to io.Reader (the http.HandlerFunc idiom). A
// func value is a perfectly legal io.Reader whose dynamic type can neither be
// compared with == nor used as a map key.
type readerFunc func(p []byte) (int, error)

func (f readerFunc) Read(p []byte) (int, error) { return f(p) }

// valueSource is a reader passed by value whose struct holds a slice: not
// hashable, not comparable either.
type valueSource struct {
	dev  *SimSource
	tags []string
}

func (v valueSource) Read(p []byte) (int, error) { return v.dev.Read(p) }

// lockerSource is the simulated device written in the usual thread-safe Go
// style: a struct that embeds its mutex - so the pointer also is a sync.Locker -
// and takes it in Read. (The simulator's mutex: a caller blocked on it is
// parked where the controller sees it.)
type lockerSource struct {
	simrt.Mutex
	dev *SimSource
}

func (l *lockerSource) Read(p []byte) (int, error) {
	// (an uncontended acquisition is not a scheduling point: a device read in
	// one-byte pieces would otherwise cost three steps per byte)
	if !l.TryLock() {
		l.Lock()
	}
	defer l.Unlock()
	return l.dev.Read(p)
}

// seekableSim is the simulated device with a Seek method (a file-like device
// node): everything the device does - short reads, faults - stays as it is.
type seekableSim struct{ dev *SimSource }

func (s seekableSim) Read(p []byte) (int, error) { return s.dev.Read(p) }
func (s seekableSim) Seek(off int64, whence int) (int64, error) {
	s.dev.mu.Lock()
	defer s.dev.mu.Unlock()
	var np int64
	switch whence {
	case io.SeekStart:
		np = off
	case io.SeekCurrent:
		np = s.dev.pos + off
	default:
		if l := s.dev.st.Len(); l >= 0 {
			np = l + off
		} else {
			return s.dev.pos, os.ErrInvalid
		}
	}
	if np < 0 {
		return s.dev.pos, os.ErrInvalid
	}
	s.dev.pos = np
	return np, nil
}

// carrier is a source built around the stream of a run.
type carrier struct {
	src      io.Reader
	consumed func() int64 // stream bytes consumed so far (-1: unknown)
	cleanup  func()
}

// headerFor returns the bytes that precede the stream proper in a positioned
// carrier (already consumed when the workflow gets the source): all zero, so
// that judging them instead of the stream cannot go unnoticed.
func headerFor(n int) []byte { return make([]byte, n) }

// buildCarrier wraps the finite stream st for configuration c. sim is the
// simulated device over the same stream (used by the bufio carrier).
func buildCarrier(c *RunConfig, st *Stream, sim *SimSource, prefix []byte) (*carrier, error) {
	simConsumed := func() int64 {
		sim.mu.Lock()
		defer sim.mu.Unlock()
		return sim.Delivered
	}
	// wrappers of the simulated device: every device behaviour (read sizes,
	// faults, endless streams) stays available behind another dynamic type
	switch c.Carrier {
	case "func":
		return &carrier{src: readerFunc(sim.Read), consumed: simConsumed, cleanup: func() {}}, nil
	case "valuestruct":
		return &carrier{src: valueSource{dev: sim, tags: []string{"rng0"}}, consumed: simConsumed, cleanup: func() {}}, nil
	case "seeker":
		return &carrier{src: seekableSim{dev: sim}, consumed: simConsumed, cleanup: func() {}}, nil
	case "locker":
		return &carrier{src: &lockerSource{dev: sim}, consumed: simConsumed, cleanup: func() {}}, nil
	}
	if st.Len() < 0 {
		return nil, nil
	}
	off := c.CarrierOffset
	// the bytes the carrier holds: what earlier calls on the same object will
	// consume first (prefix), then the stream - cut short where an end-of-data
	// fault says the source ends (a truncated file, a short in-memory buffer)
	data := st.data
	if k := c.Fault.Kind; (k == "eof" || k == "ueof" || k == "partialeof") && c.Fault.At < int64(len(data)) {
		data = data[:c.Fault.At]
	}
	if len(prefix) > 0 {
		data = append(append([]byte(nil), prefix...), data...)
	}
	plen := int64(len(prefix))
	st = &Stream{data: data}
	switch c.Carrier {
	case "bytes":
		b := append(headerFor(off), st.data...)
		lb := &lockedBytes{r: bytes.NewReader(b)}
		if off > 0 {
			if _, err := io.CopyN(io.Discard, lb, int64(off)); err != nil {
				return nil, err
			}
		}
		return &carrier{src: lb, consumed: func() int64 { return lb.Size() - int64(lb.Len()) - int64(off) - plen }, cleanup: func() {}}, nil
	case "writerto":
		cw := &chunkedWriterTo{data: st.data, chunk: []int{6000, 1000, 4097, 125001}[off%4]}
		return &carrier{src: cw, consumed: func() int64 { cw.mu.Lock(); defer cw.mu.Unlock(); return int64(cw.pos) - plen }, cleanup: func() {}}, nil
	case "fifo":
		ff := &fifoSource{data: st.data, cap: 4096}
		return &carrier{src: ff, consumed: func() int64 { ff.mu.Lock(); defer ff.mu.Unlock(); return int64(ff.pos) - plen }, cleanup: func() {}}, nil
	case "bufio":
		br := bufio.NewReaderSize(sim, []int{4096, 16, 64, 1024, 65536, 4096}[off%6])
		return &carrier{src: br, consumed: func() int64 {
			sim.mu.Lock()
			d := sim.Delivered
			sim.mu.Unlock()
			return d - int64(br.Buffered())
		}, cleanup: func() {}}, nil
	case "file":
		f, err := os.CreateTemp(".", "carrier-*.bin")
		if err != nil {
			return nil, err
		}
		if _, err = f.Write(headerFor(off)); err == nil {
			_, err = f.Write(st.data)
		}
		if err == nil {
			_, err = f.Seek(int64(off), io.SeekStart)
		}
		if err != nil {
			f.Close()
			os.Remove(f.Name())
			return nil, err
		}
		return &carrier{src: f, consumed: func() int64 {
			p, err := f.Seek(0, io.SeekCurrent)
			if err != nil {
				return -1
			}
			return p - int64(off) - plen
		}, cleanup: func() { f.Close(); os.Remove(f.Name()) }}, nil
	case "pipe":
		// the read end of an operating-system pipe: an *os.File whose Stat
		// reports size 0 and that cannot seek, like a FIFO or a device node.
		// The feeder is an ordinary goroutine started outside the bubble.
		pr, pw, err := os.Pipe()
		if err != nil {
			return nil, err
		}
		data := st.data
		go func() {
			_, _ = pw.Write(data)
			_ = pw.Close()
		}()
		return &carrier{src: pr, consumed: func() int64 { return -1 }, cleanup: func() { pr.Close() }}, nil
	}
	return nil, nil
}

// switchSource is one source object serving two consecutive calls: an earlier
// call (the prelude) and the call under observation. State that code keeps
// per source object only shows when both calls see the same object.
type switchSource struct {
	mu  sync.Mutex
	cur io.Reader
}

func (s *switchSource) Read(p []byte) (int, error) {
	s.mu.Lock()
	r := s.cur
	s.mu.Unlock()
	return r.Read(p)
}

func (s *switchSource) set(r io.Reader) {
	s.mu.Lock()
	s.cur = r
	s.mu.Unlock()
}
