package detectsim

import (
	"encoding/json"
	"fmt"
	"hash/fnv"

	"github.com/Trisia/randomness/simrt/simctl"
)

// Workflow names.
const (
	WFactory     = "FactoryDetect"
	WPowerOn     = "PowerOnDetect"
	WPeriod      = "PeriodDetect"
	WFactoryFast = "FactoryDetectFast"
	WPowerOnFast = "PowerOnDetectFast"
	WPeriodFast  = "PeriodDetectFast"
	WSingle      = "SingleDetect"
)

// AllWorkflows lists the seven workflow functions.
var AllWorkflows = []string{WFactory, WPowerOn, WPeriod, WFactoryFast, WPowerOnFast, WPeriodFast, WSingle}

// WorkflowInfo is the harness's own statement of what each workflow is
// documented to do (GM/T 0062 / README / property C07): it is not read from
// the implementation.
type WorkflowInfo struct {
	Samples     int
	SampleBytes int
	Items       int
	Fast        bool
	Sequential  string // sequential counterpart of a Fast workflow
}

// Info returns the documented shape of a workflow.
func Info(w string) WorkflowInfo {
	switch w {
	case WFactory:
		return WorkflowInfo{50, 125000, 15, false, ""}
	case WPowerOn:
		return WorkflowInfo{20, 125000, 15, false, ""}
	case WPeriod:
		return WorkflowInfo{20, 2500, 12, false, ""}
	case WFactoryFast:
		return WorkflowInfo{50, 125000, 15, true, WFactory}
	case WPowerOnFast:
		return WorkflowInfo{20, 125000, 15, true, WPowerOn}
	case WPeriodFast:
		return WorkflowInfo{20, 2500, 12, true, WPeriod}
	}
	return WorkflowInfo{}
}

// StreamSpec describes the byte stream the simulated device produces.
type StreamSpec struct {
	Kind   string `json:"kind"`             // prf | const | periodic | literal | biased
	Seed   uint64 `json:"seed,omitempty"`   // prf, biased
	Byte   int    `json:"byte,omitempty"`   // const
	Period string `json:"period,omitempty"` // periodic: hex of one period; literal: hex of the whole stream
	Tail   int    `json:"tail"`             // bytes available beyond the required ones (prf/biased/literal)
	TailSd uint64 `json:"tail_seed,omitempty"`
	Bias   int    `json:"bias,omitempty"` // biased: probability of a one bit, in 1/256
	// EOFData: a finite stream hands out its last bytes together with io.EOF
	// (what iotest.DataErrReader, some files, pipes and decompressors do)
	// instead of returning (0, io.EOF) on the following Read
	EOFData bool `json:"eof_with_data,omitempty"`
	// DupLen > 0 (materialised streams): bytes [DupAt, DupAt+DupLen) repeat
	// the DupLen bytes before them - a healthy generator may well deliver the
	// same sample twice; identical samples get identical test results
	DupAt  int64 `json:"dup_at,omitempty"`
	DupLen int   `json:"dup_len,omitempty"`
}

// ChunkSpec describes how many bytes each Read returns.
type ChunkSpec struct {
	Kind string `json:"kind"` // full | fixed | rand | onethenrest | geom | straddle
	K    int    `json:"k,omitempty"`
	Seed uint64 `json:"seed,omitempty"`
	// Empty > 0: every Empty-th Read returns (0, nil) - legal for an io.Reader
	// (a polled device with nothing ready), and io.ReadFull simply reads again
	Empty int `json:"empty,omitempty"`
	// EmptyRun > 0: after its EmptyAfter-th Read the device goes idle once and
	// answers EmptyRun consecutive Reads with (0, nil) before it delivers again
	EmptyRun   int `json:"empty_run,omitempty"`
	EmptyAfter int `json:"empty_after,omitempty"`
	// Delay > 0: every Delay-th Read takes DelaySec seconds of (simulated) time
	// before it returns - a slow device. The bubble's clock is fake, so minutes
	// cost microseconds; a workflow may not give up on a slow but healthy source.
	// Reentrant: on its first Read the device runs a detection of its own (the
	// named workflow, on a private healthy source) before it delivers - a
	// generator that self-checks its raw output
	Reentrant string `json:"reentrant,omitempty"`
	Delay    int `json:"delay,omitempty"`
	DelaySec int `json:"delay_sec,omitempty"`
}

// FaultSpec describes the failure of the device.
type FaultSpec struct {
	Kind   string `json:"kind"` // none | eof | ueof | custom | partial | partialeof
	At     int64  `json:"at"`   // number of bytes deliverable before the fault
	Sticky bool   `json:"sticky"`
	// Burst > 1: a transient fault fails that many consecutive Reads before the
	// device delivers again (a retry loop gives up after a few attempts)
	Burst int `json:"burst,omitempty"`
}

// ItemDirective shapes one item's column of the scripted result matrix.
type ItemDirective struct {
	Item      int   `json:"item"`
	PassCount int   `json:"pass_count"`     // -1: all samples pass
	Bins      []int `json:"bins,omitempty"` // Q histogram over ten bins (sums to s); nil: flat
	Edge      bool  `json:"edge,omitempty"` // put Q values exactly on the lower bin edge (and 1.0 in the last bin)
	FailHigh  bool  `json:"fail_high,omitempty"` // two-sided items: failing samples have Q near 1 (bin 9) instead of near 0
	P2Only    bool  `json:"p2_only,omitempty"`    // overlapping item: every failing sample fails through P2 only (Q1 stays an ordinary mid-range value)
	Q2Bin     int   `json:"q2_bin,omitempty"`     // overlapping item, 1..10: the second Q value of every passing sample lies in that one bin (the rule looks at the first only)
	AlphaEdge int   `json:"alpha_edge,omitempty"` // this many passing samples of bin 0 have P exactly equal to alpha (they pass: P >= alpha)
}

// RunnerSpec says whether runners are scripted or real.
type RunnerSpec struct {
	Mode   string          `json:"mode"` // scripted | real
	Seed   uint64          `json:"seed,omitempty"`
	Dir    []ItemDirective `json:"dir,omitempty"`
	Random int             `json:"random,omitempty"` // >0: every cell fails with probability Random/1000 and Q is random
	// SlowEvery > 0: every SlowEvery-th runner call takes SlowSec simulated seconds
	SlowEvery int `json:"slow_every,omitempty"`
	SlowSec   int `json:"slow_sec,omitempty"`
	// Lockstep (race monitor only): the first batch of samples (one per
	// worker) enters every item together: each runner call waits until all
	// workers of the batch have arrived at that item. A pure delay.
	Lockstep bool `json:"lockstep,omitempty"`
}

// RunConfig is one fully explicit simulated execution: together with Picks it
// determines the run completely.
type RunConfig struct {
	Prop      string        `json:"prop"`
	Workflow  string        `json:"workflow"`
	NumByte   int           `json:"num_byte,omitempty"`
	Workers   int           `json:"workers"`
	Policy    simctl.Policy `json:"policy"`
	Stream    StreamSpec    `json:"stream"`
	Chunk     ChunkSpec     `json:"chunk"`
	Fault     FaultSpec     `json:"fault"`
	Runners   RunnerSpec    `json:"runners"`
	ReadYield int           `json:"read_yield"` // every n-th Read is a scheduling point (0: none)
	Prelude   []PreludeSpec `json:"prelude,omitempty"`
	// Companion: another detection running at the same time in the same
	// process, on its own source (started just before the observed call, as
	// its own task; its workers are tasks too). Its outcome is not judged; the
	// observed call must not notice it.
	Companion []PreludeSpec `json:"companion,omitempty"`
	// Carrier: the kind of Go object that hands the stream over ("" = the
	// simulated device, a plain io.Reader; bytes | bufio | file | pipe, see
	// carrier.go); CarrierOffset: bytes of header already consumed from it
	Carrier       string `json:"carrier,omitempty"`
	CarrierOffset int    `json:"carrier_offset,omitempty"`
	Picks     []int         `json:"picks,omitempty"`
	Note      string        `json:"note,omitempty"`
	// Stdio: condition of the process's standard output during the run:
	// "" (discarded) | closed (every write fails) | pipe-closed (reader gone)
	Stdio string `json:"stdio,omitempty"`
	// Fresh: the case is executed in a process of its own that has done nothing
	// else (a re-execution of the engine binary), observed run first: state the
	// code keeps for the life of a process - a lazily built table, a grow-only
	// cache, a registry - is then in the condition a real first use finds it in
	Fresh bool `json:"fresh,omitempty"`
}

// PreludeSpec is an earlier call made in the same run, before the call under
// observation: histories matter as soon as a workflow keeps anything between
// calls (a pooled buffer, a cached table).
type PreludeSpec struct {
	Workflow string     `json:"workflow"`
	NumByte  int        `json:"num_byte,omitempty"`
	Stream   StreamSpec `json:"stream"`
	// Fault: the earlier call may itself have been cut short by a failing
	// source (an aborted detection leaves whatever it had accumulated)
	Fault FaultSpec `json:"fault,omitempty"`
	// SameSource: the earlier call and the observed call are given the same
	// source object (the device was simply used twice)
	SameSource bool `json:"same_source,omitempty"`
}

// Required returns the number of stream bytes the workflow needs.
func (c *RunConfig) Required() int64 {
	if c.Workflow == WSingle {
		return int64(c.NumByte)
	}
	wi := Info(c.Workflow)
	return int64(wi.Samples) * int64(wi.SampleBytes)
}

// Key is a stable fingerprint of the configuration without picks.
func (c *RunConfig) Key() uint64 {
	d := *c
	d.Picks = nil
	d.Note = ""
	b, _ := json.Marshal(d)
	h := fnv.New64a()
	h.Write(b)
	return h.Sum64()
}

func (c *RunConfig) String() string {
	return fmt.Sprintf("%s W=%d pol=%s stream=%s chunk=%s/%d fault=%s@%d sticky=%v runners=%s", c.Workflow, c.Workers, c.Policy.Kind,
		c.Stream.Kind, c.Chunk.Kind, c.Chunk.K, c.Fault.Kind, c.Fault.At, c.Fault.Sticky, c.Runners.Mode)
}
