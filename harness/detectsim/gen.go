package detectsim

import (
	"encoding/hex"

	"github.com/Trisia/randomness/simrt/simctl"
)

// Case generation: Plan(prop, tier, seed) is a pure function returning the
// list of configurations a batch explores. Every random choice comes from one
// splitmix64 stream seeded by VERIF_SEED.

// worker counts (the NumCPU seam): small ones, the sandbox's own 16, and counts
// at and above the number of samples (20 / 50), where a pool has idle workers
var workerChoices = []int{1, 2, 3, 4, 5, 8, 16, 1, 2, 3, 4, 7, 12, 19, 20, 21, 32, 50, 51, 64}

// genPolicy draws a scheduling policy; the behaviour of the sync.Pool
// replacement (always reuse / never / alternate) rides on the policy seed.
func genPolicy(r *simctl.Rand, est int) simctl.Policy {
	p := genPolicy0(r, est)
	p.Pool = []int{0, 0, 0, 1, 2}[p.Seed%5]
	// simulated time passing between steps ("the released task was slow")
	p.Jitter = []int{0, 0, 0, 0, 0, 0, 20, 20, 200, 200}[(p.Seed/5)%10]
	// a CPU quota below the core count: GOMAXPROCS(0) < NumCPU in one run of four
	p.GMP = []int{0, 0, 0, 0, 0, 0, 1, 2, 3, 5}[(p.Seed/50)%10]
	if p.Kind == "first" || p.Kind == "last" {
		p.GMP = []int{0, 0, 1, 2}[r.Intn(4)]
	}
	return p
}

func genPolicy0(r *simctl.Rand, estSteps int) simctl.Policy {
	switch r.Intn(10) {
	case 0:
		return simctl.Policy{Kind: "first"}
	case 1:
		return simctl.Policy{Kind: "last"}
	case 2, 3, 4:
		return simctl.Policy{Kind: "pct", Seed: r.Uint64(), Depth: 1 + r.Intn(3), Span: estSteps}
	case 5:
		return simctl.Policy{Kind: "sticky", Seed: r.Uint64(), Stick: 70 + r.Intn(29)}
	default:
		return simctl.Policy{Kind: "random", Seed: r.Uint64()}
	}
}

func estSteps(w string, workers int) int {
	wi := Info(w)
	if wi.Samples == 0 {
		return 50
	}
	return wi.Samples*(wi.Items+22) + 6*workers
}

// BoundaryBins searches, from the flat histogram, for two ten-bin histograms
// over s samples that differ by one moved sample and whose uniformity P-values
// lie on either side of 0.0001. heavy0 forces the surplus into bin 0.
func BoundaryBins(s int, r *simctl.Rand, heavy0 bool) (above, below []int) {
	h := -1
	if heavy0 {
		h = 0
	}
	return BoundaryBinsH(s, r, h, -1)
}

// BoundaryBinsH is BoundaryBins with the surplus forced into bin `heavy`
// (-1: free) and bin `protect` (-1: none) never drained.
func BoundaryBinsH(s int, r *simctl.Rand, heavy, protect int) (above, below []int) {
	b := flatBins(s)
	for iter := 0; iter < 10000; iter++ {
		from := r.Intn(10)
		to := r.Intn(10)
		if from == protect {
			continue
		}
		if heavy >= 0 {
			to = heavy
		} else if r.Intn(3) > 0 {
			// prefer piling onto the currently fullest bin: reaches the tail faster
			mx := 0
			for i := range b {
				if b[i] > b[mx] {
					mx = i
				}
			}
			to = mx
		}
		if from == to || b[from] == 0 {
			continue
		}
		prev := append([]int(nil), b...)
		b[from]--
		b[to]++
		if UniformityOfBins(b, s) < alphaT {
			return prev, append([]int(nil), b...)
		}
	}
	return nil, nil
}

func prfStream(r *simctl.Rand) StreamSpec {
	st := StreamSpec{Kind: "prf", Seed: r.Uint64(), Tail: []int{0, 0, 1, 37, 4096}[r.Intn(5)], TailSd: r.Uint64()}
	// a source that ends exactly after the last sample may hand out the last
	// bytes together with io.EOF
	st.EOFData = st.Tail == 0 && st.TailSd%2 == 0
	return st
}

// genCarrier draws the kind of source object for a fault-free run: mostly the
// simulated device, sometimes an in-memory reader, a buffered reader, a
// regular file or a pipe, possibly positioned behind an already consumed
// header.
func genCarrier(c *RunConfig, r *simctl.Rand, fast bool) {
	kinds := []string{"bytes", "bytes", "file", "pipe", "bufio", "bufio", "writerto", "fifo", "func", "valuestruct", "seeker", "locker"}
	c.Carrier = kinds[r.Intn(len(kinds))]
	if c.Carrier == "func" || c.Carrier == "valuestruct" || c.Carrier == "seeker" || c.Carrier == "locker" {
		// (wrappers of the simulated device keep the case's read sizes and EOF form)
		return
	}
	if c.Carrier == "bufio" {
		c.CarrierOffset = r.Intn(6) // (selects the buffer size)
	}
	if c.Carrier == "bytes" || c.Carrier == "file" {
		c.CarrierOffset = []int{0, 1250, 2500, 4096, 125000, 1 + r.Intn(5000)}[r.Intn(6)]
	}
	if c.Carrier == "writerto" {
		c.CarrierOffset = r.Intn(4) // (selects the chunk size of its WriteTo; no header)
	}
	c.Chunk = ChunkSpec{Kind: "full"}
	c.Stream.EOFData = false
	for i := range c.Prelude {
		// (a healthy earlier call may have used this very file or in-memory reader)
		if !(c.Carrier == "bytes" || c.Carrier == "file") || (c.Prelude[i].Fault.Kind != "" && c.Prelude[i].Fault.Kind != "none") {
			c.Prelude[i].SameSource = false
		}
	}
}

// detPrelude draws an earlier detection made in the same run before the one
// under observation: any of the six multi-sample workflows (mostly the same
// one or one of the same sample size), on a healthy source or cut short by a
// failing one after a few samples. Whatever a workflow keeps between calls
// (pooled state, a cached error, a reused buffer) only shows through such
// histories.
func detPrelude(w string, r *simctl.Rand) []PreludeSpec {
	pw := w
	switch r.Intn(5) {
	case 0:
		pw = []string{WPeriod, WPeriodFast}[r.Intn(2)]
	case 1:
		all := []string{WFactory, WPowerOn, WPeriod, WFactoryFast, WPowerOnFast, WPeriodFast}
		pw = all[r.Intn(len(all))]
	case 2:
		// a workflow of the other sample size and/or sample count, same family
		// (whatever is sized by one call and reused by the next shows here)
		if Info(w).SampleBytes == 2500 {
			pw = []string{WPowerOn, WFactory, WPowerOnFast, WFactoryFast}[r.Intn(4)]
		} else {
			pw = []string{WPeriod, WPeriodFast, WFactory, WFactoryFast, WPowerOn, WPowerOnFast}[r.Intn(6)]
		}
		if Info(w).Fast != Info(pw).Fast && r.Intn(2) == 0 {
			if Info(w).Fast {
				pw = pw + "Fast"
			} else {
				pw = Info(pw).Sequential
			}
		}
	}
	wi := Info(pw)
	p := PreludeSpec{Workflow: pw, Stream: StreamSpec{Kind: "prf", Seed: r.Uint64()}}
	if r.Intn(3) > 0 {
		// cut short inside or exactly after sample k
		k := 1 + r.Intn(wi.Samples-1)
		at := int64(k) * int64(wi.SampleBytes)
		if r.Intn(2) == 0 {
			at += int64(r.Intn(wi.SampleBytes))
		}
		p.Fault = FaultSpec{Kind: []string{"eof", "custom", "partial"}[r.Intn(3)], At: at, Sticky: r.Intn(2) == 0}
	}
	// the device was simply used twice: both calls get the same source object
	// (only a transient failure leaves it usable for the second call)
	p.SameSource = r.Intn(2) == 0 && !p.Fault.Sticky
	return []PreludeSpec{p}
}

// matrixScenario returns the idx-th scripted-result scenario for a workflow
// with `items` judged items and s samples.
type scenario struct {
	name string
	spec RunnerSpec
}

func scenarios(w string, r *simctl.Rand, thorough bool) []scenario {
	wi := Info(w)
	s, items := wi.Samples, wi.Items
	th := ThresholdModel(s)
	var sc []scenario
	add := func(name string, dir ...ItemDirective) {
		sc = append(sc, scenario{name, RunnerSpec{Mode: "scripted", Seed: r.Uint64(), Dir: dir}})
	}
	add("all-pass")
	itemSet := []int{0, items - 1, r.Intn(items), r.Intn(items)}
	if thorough {
		itemSet = nil
		for i := 0; i < items; i++ {
			itemSet = append(itemSet, i)
		}
	}
	for _, it := range itemSet {
		add("threshold-1", ItemDirective{Item: it, PassCount: th - 1})
		add("threshold", ItemDirective{Item: it, PassCount: th})
	}
	// the overlapping item passes a sample when min(P1, P2) >= alpha: half of
	// its failing samples fail through P2 only (BuildMatrix)
	// ... and when ALL of them do, the item's Q-values stay uniform: only the
	// pass-count criterion can reject it, at any pass count down to 0
	add("overlapping-never-passes-uniform-q", ItemDirective{Item: 3, PassCount: 0, P2Only: true})
	add("overlapping-second-q-in-one-bin", ItemDirective{Item: 3, PassCount: -1, Q2Bin: 1 + r.Intn(10)})
	add("overlapping-few-passes-uniform-q", ItemDirective{Item: 3, PassCount: r.Intn(th), P2Only: true})
	add("overlapping-threshold-1", ItemDirective{Item: 3, PassCount: th - 1})
	add("overlapping-threshold", ItemDirective{Item: 3, PassCount: th})
	// passing samples whose P-value equals alpha exactly (a result passes when
	// P >= alpha), enough of them to matter if they were counted as failures
	add("p-equals-alpha", ItemDirective{Item: r.Intn(items), PassCount: -1, AlphaEdge: s - th + 1}, ItemDirective{Item: []int{0, 4, 7, 8}[r.Intn(4)], PassCount: -1, AlphaEdge: s - th + 1})
	add("zero-pass", ItemDirective{Item: r.Intn(items), PassCount: 0})
	add("all-items-at-threshold", func() []ItemDirective {
		var d []ItemDirective
		for i := 0; i < 15; i++ {
			d = append(d, ItemDirective{Item: i, PassCount: th})
		}
		return d
	}()...)
	// items beyond the judged ones fail completely: verdict must not move
	var beyond []ItemDirective
	for i := items; i < 15; i++ {
		beyond = append(beyond, ItemDirective{Item: i, PassCount: 0})
	}
	if len(beyond) > 0 {
		add("unjudged-items-fail", beyond...)
		skew := make([]int, 10)
		skew[0] = s
		add("unjudged-items-skewed", ItemDirective{Item: 12 + r.Intn(3), PassCount: -1, Bins: skew})
	}
	// last judged item only
	add("last-item-fails", ItemDirective{Item: items - 1, PassCount: th - 1})
	// uniformity boundary
	nb := 3
	if thorough {
		nb = 12
	}
	for i := 0; i < nb; i++ {
		heavy := i%2 == 0
		ab, be := BoundaryBins(s, r, heavy)
		if ab == nil {
			continue
		}
		it := r.Intn(items)
		add("uniformity-just-above", ItemDirective{Item: it, PassCount: -1, Bins: ab, Edge: i%3 == 2})
		add("uniformity-just-below", ItemDirective{Item: it, PassCount: -1, Bins: be, Edge: i%3 == 2})
	}
	// uniformity boundary combined with a tolerated failing sample whose Q lies
	// in the top bin (two-sided statistics fail on either side): the Q of a
	// failing sample counts in the histogram like any other
	for _, it := range []int{0, 4, 7, 8} {
		if it >= items {
			continue
		}
		nf := 1 + r.Intn(s-th)
		if ab, _ := BoundaryBinsH(s, r, 0, 9); ab != nil {
			add("boundary-above+failing-sample-high-q", ItemDirective{Item: it, PassCount: s - nf, Bins: ab, FailHigh: true})
		}
		if _, be := BoundaryBinsH(s, r, 9, -1); be != nil {
			add("boundary-below+failing-sample-high-q", ItemDirective{Item: it, PassCount: s - nf, Bins: be, FailHigh: true})
		}
		if !thorough {
			break
		}
	}
	// exactly one violator among otherwise imperfect but conforming items
	// (pass counts anywhere in [threshold, s], skewed but acceptable
	// histograms): the error must name the violator - often item 0
	nv := 3
	if thorough {
		nv = 10
	}
	for k := 0; k < nv; k++ {
		vio := r.Intn(items)
		if k%2 == 0 {
			vio = 0
		}
		var d []ItemDirective
		for it := 0; it < items; it++ {
			if it == vio {
				if k%4 < 2 {
					_, be := BoundaryBinsH(s, r, -1, -1)
					d = append(d, ItemDirective{Item: it, PassCount: -1, Bins: be})
				} else {
					d = append(d, ItemDirective{Item: it, PassCount: th - 1})
				}
				continue
			}
			ab, _ := BoundaryBinsH(s, r, r.Intn(10), -1)
			x := ItemDirective{Item: it, PassCount: th + r.Intn(s-th+1)}
			if r.Intn(2) == 0 {
				x.Bins = ab
			}
			d = append(d, x)
		}
		add("one-violator-among-imperfect-items", d...)
	}
	// two different items violating different criteria
	{
		_, be := BoundaryBins(s, r, false)
		a := r.Intn(items)
		b := (a + 1 + r.Intn(items-1)) % items
		add("two-violators", ItemDirective{Item: a, PassCount: -1, Bins: be}, ItemDirective{Item: b, PassCount: th - 1})
	}
	// edge-valued Q on a flat histogram
	add("edge-values", ItemDirective{Item: r.Intn(items), PassCount: -1, Edge: true})
	nr := 3
	if thorough {
		nr = 20
	}
	for i := 0; i < nr; i++ {
		sc = append(sc, scenario{"random", RunnerSpec{Mode: "scripted", Seed: r.Uint64(), Random: []int{5, 20, 60, 150}[r.Intn(4)]}})
	}
	return sc
}

// chunkFor draws a read-size history; one in eight is also a slow device
// (some reads take seconds to hours of simulated time).
func chunkFor(w string, r *simctl.Rand) ChunkSpec {
	c := chunkFor0(w, r)
	if r.Intn(8) == 0 {
		c.Delay, c.DelaySec = 1+r.Intn(50), []int{1, 30, 600, 7200}[r.Intn(4)]
	}
	return c
}

func chunkFor0(w string, r *simctl.Rand) ChunkSpec {
	B := Info(w).SampleBytes
	if B == 0 {
		B = 64
	}
	switch r.Intn(8) {
	case 0:
		return ChunkSpec{Kind: "devchunk", K: B - 1}
	case 1:
		return ChunkSpec{Kind: "devchunk", K: B + 1}
	case 2:
		return ChunkSpec{Kind: "devchunk", K: 4099}
	case 3:
		return ChunkSpec{Kind: "fixed", K: []int{7, 512, 4099, 65536}[r.Intn(4)]}
	case 4:
		return ChunkSpec{Kind: "rand", Seed: r.Uint64()}
	case 5:
		return ChunkSpec{Kind: "onethenrest"}
	case 6:
		if B <= 2500 {
			return ChunkSpec{Kind: "fixed", K: 1}
		}
		return ChunkSpec{Kind: "fixed", K: 61}
	default:
		return ChunkSpec{Kind: "geom", Seed: r.Uint64()}
	}
}

// capReadYield keeps the number of device scheduling points of one run around
// a few thousand, whatever the chunking.
func capReadYield(c *RunConfig) {
	avg := 0
	wi := Info(c.Workflow)
	switch c.Chunk.Kind {
	case "fixed", "devchunk":
		avg = c.Chunk.K
	case "geom":
		avg = 64
	case "rand":
		avg = wi.SampleBytes / 2
	case "onethenrest":
		avg = wi.SampleBytes / 2
	}
	if avg <= 0 || c.ReadYield <= 0 {
		return
	}
	reads := int(c.Required()) / avg
	if min := reads/3000 + 1; c.ReadYield < min {
		c.ReadYield = min
	}
}

// Plan lists the configurations for a property and tier.
func Plan(prop, tier string, seed uint64) []RunConfig {
	r := simctl.NewRand(simctl.Mix(seed, uint64(prop[1]-'0')*10+uint64(prop[2]-'0')))
	thorough := tier == "thorough"
	var out []RunConfig
	switch prop {
	case "C07":
		reps := 10
		if thorough {
			reps = 300
		}
		for rep := 0; rep < reps; rep++ {
			for _, w := range []string{WFactory, WPowerOn, WPeriod} {
				for _, sc := range scenarios(w, r, thorough) {
					// (the NumCPU / GOMAXPROCS seam is varied for the sequential
					// workflows too: nothing in them may depend on it)
					W := workerChoices[r.Intn(len(workerChoices))]
					c := RunConfig{Prop: prop, Workflow: w, Workers: W, Policy: genPolicy(r, estSteps(w, W)),
						Stream: prfStream(r), Chunk: ChunkSpec{Kind: "full"}, Fault: FaultSpec{Kind: "none"}, Runners: sc.spec, ReadYield: 1, Note: sc.name}
					if r.Intn(4) == 0 {
						c.Chunk = chunkFor(w, r)
						c.ReadYield = 0
					}
					if r.Intn(4) == 0 {
						c.Prelude = detPrelude(w, r)
					} else if r.Intn(12) == 0 {
						// the same detection was just run on exactly the same stream
						c.Prelude = []PreludeSpec{{Workflow: w, Stream: c.Stream}}
					}
					if r.Intn(5) == 0 {
						genCarrier(&c, r, false)
					}
					if r.Intn(6) == 0 {
						// another detection runs at the same time on its own source
						c.Companion = detPrelude(w, r)
						c.Companion[0].SameSource = false
					}
					if r.Intn(12) == 0 {
						// nobody listens to the process's standard output
						c.Stdio = []string{"closed", "pipe-closed"}[r.Intn(2)]
					}
					if r.Intn(7) == 0 {
						// the generator delivers one sample twice in a row: the rule
						// counts both, nothing in it compares samples with each other
						B := Info(w).SampleBytes
						c.Stream.DupAt, c.Stream.DupLen = int64(1+r.Intn(Info(w).Samples-1))*int64(B), B
					}
					out = append(out, c)
				}
			}
		}
		// real runners on PRF streams (the harness applies the decision rule to
		// the results the runners actually returned)
		nreal := 6
		if thorough {
			nreal = 400
		}
		for i := 0; i < nreal; i++ {
			out = append(out, RunConfig{Prop: prop, Workflow: WPeriod, Workers: 1, Policy: simctl.Policy{Kind: "first"},
				Stream: prfStream(r), Chunk: ChunkSpec{Kind: "full"}, Fault: FaultSpec{Kind: "none"}, Runners: RunnerSpec{Mode: "real"}, ReadYield: 1, Note: "real-runners"})
		}
		if thorough {
			for i := 0; i < 24; i++ {
				out = append(out, RunConfig{Prop: prop, Workflow: WPowerOn, Workers: 1, Policy: simctl.Policy{Kind: "first"},
					Stream: prfStream(r), Chunk: ChunkSpec{Kind: "full"}, Fault: FaultSpec{Kind: "none"}, Runners: RunnerSpec{Mode: "real"}, ReadYield: 1, Note: "real-runners"})
			}
		}
	case "C08":
		scheds := 8
		if thorough {
			scheds = 160
		}
		for _, w := range []string{WPeriodFast, WPowerOnFast, WFactoryFast} {
			for _, sc := range scenarios(w, r, thorough) {
				st := prfStream(r)
				pre := detPrelude(w, r)
				for k := 0; k < scheds; k++ {
					W := workerChoices[r.Intn(len(workerChoices))]
					c := RunConfig{Prop: prop, Workflow: w, Workers: W, Policy: genPolicy(r, estSteps(w, W)),
						Stream: st, Chunk: ChunkSpec{Kind: "full"}, Fault: FaultSpec{Kind: "none"}, Runners: sc.spec, ReadYield: 1, Note: sc.name}
					// the environment knobs are drawn independently of each other, so
					// that every pair of them coincides now and then
					if r.Intn(4) == 0 {
						// (the sequential twin repeats the same history)
						c.Prelude = pre
					}
					if r.Intn(5) == 0 {
						c.Chunk = chunkFor(w, r)
						c.ReadYield = []int{1, 3, 17}[r.Intn(3)]
					}
					if r.Intn(4) == 0 {
						genCarrier(&c, r, true)
					}
					if r.Intn(8) == 0 {
						c.Companion = detPrelude(w, r)
						c.Companion[0].SameSource = false
					}
					if r.Intn(12) == 0 {
						c.Stdio = []string{"closed", "pipe-closed"}[r.Intn(2)]
					}
					if r.Intn(9) == 0 {
						// one sample delivered twice in a row
						B := Info(w).SampleBytes
						c.Stream.DupAt, c.Stream.DupLen = int64(1+r.Intn(Info(w).Samples-1))*int64(B), B
					}
					out = append(out, c)
				}
			}
		}
		// a source that fails once and then delivers again: the sequential
		// workflow stops with (false, err), so must the Fast one
		nflt := 8
		if thorough {
			nflt = 400
		}
		for _, w := range []string{WPeriodFast, WPowerOnFast, WFactoryFast} {
			wi := Info(w)
			for i := 0; i < nflt; i++ {
				W := workerChoices[r.Intn(len(workerChoices))]
				k := r.Intn(wi.Samples)
				at := int64(k) * int64(wi.SampleBytes)
				if i%2 == 1 {
					at += int64(r.Intn(wi.SampleBytes))
				}
				out = append(out, RunConfig{Prop: prop, Workflow: w, Workers: W, Policy: genPolicy(r, estSteps(w, W)),
					Stream: prfStream(r), Chunk: ChunkSpec{Kind: "full"}, Fault: FaultSpec{Kind: []string{"custom", "partial", "ueof"}[r.Intn(3)], At: at, Sticky: false},
					Runners: RunnerSpec{Mode: "scripted", Seed: r.Uint64()}, ReadYield: 1, Note: "transient-source-error"})
			}
		}
		// arbitrary delays inside source reads and inside test runners (simulated
		// time: the bubble's clock): minutes-long reads and tests change nothing
		nslow := 6
		if thorough {
			nslow = 200
		}
		for _, w := range []string{WPeriodFast, WPowerOnFast, WFactoryFast} {
			scs := scenarios(w, r, false)
			for i := 0; i < nslow; i++ {
				W := workerChoices[r.Intn(len(workerChoices))]
				sp := scs[r.Intn(len(scs))].spec
				ch := ChunkSpec{Kind: "full"}
				if i%3 != 2 {
					ch.Delay, ch.DelaySec = 1+r.Intn(7), []int{1, 30, 600, 7200}[r.Intn(4)]
				}
				if i%3 != 0 {
					sp.SlowEvery, sp.SlowSec = 1+r.Intn(40), []int{2, 60, 900, 86400}[r.Intn(4)]
				}
				out = append(out, RunConfig{Prop: prop, Workflow: w, Workers: W, Policy: genPolicy(r, estSteps(w, W)),
					Stream: prfStream(r), Chunk: ch, Fault: FaultSpec{Kind: "none"}, Runners: sp, ReadYield: 1, Note: "slow-device-and-slow-tests"})
			}
		}
		// a generator that self-checks: its first Read runs a Fast detection of
		// its own before delivering (re-entrancy from inside a source read)
		nself := 3
		if thorough {
			nself = 100
		}
		for _, w := range []string{WPeriodFast, WPowerOnFast, WFactoryFast} {
			scs := scenarios(w, r, false)
			for i := 0; i < nself; i++ {
				W := workerChoices[r.Intn(len(workerChoices))]
				out = append(out, RunConfig{Prop: prop, Workflow: w, Workers: W, Policy: genPolicy(r, estSteps(w, W)),
					Stream: prfStream(r), Chunk: ChunkSpec{Kind: "full", Reentrant: []string{WPeriodFast, w}[r.Intn(2)]}, Fault: FaultSpec{Kind: "none"},
					Runners: scs[r.Intn(len(scs))].spec, ReadYield: 1, Note: "self-checking-source"})
			}
		}
		// a polled device: small reads, every other Read returns (0, nil); more
		// than a hundred empty reads accumulate within one sample
		npoll := 4
		if thorough {
			npoll = 120
		}
		for _, w := range []string{WPeriodFast, WPowerOnFast} {
			for i := 0; i < npoll; i++ {
				W := workerChoices[r.Intn(len(workerChoices))]
				k := 16
				if Info(w).SampleBytes > 2500 {
					k = []int{512, 700}[r.Intn(2)]
				}
				out = append(out, RunConfig{Prop: prop, Workflow: w, Workers: W, Policy: genPolicy(r, estSteps(w, W)),
					Stream: prfStream(r), Chunk: ChunkSpec{Kind: "fixed", K: k, Empty: 2}, Fault: FaultSpec{Kind: "none"},
					Runners: RunnerSpec{Mode: "scripted", Seed: r.Uint64()}, ReadYield: 5 + r.Intn(20), Note: "polled-device-empty-reads"})
			}
		}
		nreal := 8
		if thorough {
			nreal = 600
		}
		for i := 0; i < nreal; i++ {
			W := workerChoices[r.Intn(len(workerChoices))]
			out = append(out, RunConfig{Prop: prop, Workflow: WPeriodFast, Workers: W, Policy: genPolicy(r, estSteps(WPeriodFast, W)),
				Stream: prfStream(r), Chunk: ChunkSpec{Kind: "full"}, Fault: FaultSpec{Kind: "none"}, Runners: RunnerSpec{Mode: "real"}, ReadYield: 1, Note: "real-runners"})
		}
	case "C09":
		// partial = data and a custom error in one Read; partialeof = the last
		// data and io.EOF in one Read (iotest.DataErrReader, many devices)
		kinds := []string{"eof", "ueof", "custom", "partial", "partialeof", "wrapeof", "temporary", "listerr"}
		for _, w := range AllWorkflows {
			if w == WSingle {
				continue
			}
			wi := Info(w)
			B, s := int64(wi.SampleBytes), wi.Samples
			R := B * int64(s)
			ks := map[int]bool{0: true, 1: true, 2: true, s / 2: true, s - 2: true, s - 1: true, s: true}
			if thorough {
				for k := 0; k <= s; k++ {
					ks[k] = true
				}
			} else {
				for i := 0; i < 3; i++ {
					ks[r.Intn(s+1)] = true
				}
			}
			var offs []int64
			for k := 0; k <= s; k++ {
				if !ks[k] {
					continue
				}
				for _, d := range []int64{-1, 0, 1} {
					f := int64(k)*B + d
					if f >= 0 && f < R {
						offs = append(offs, f)
					}
				}
			}
			nrand := 4
			if thorough {
				nrand = 400
			}
			for i := 0; i < nrand; i++ {
				offs = append(offs, int64(r.Uint64()%uint64(R)))
			}
			reps := 1
			if thorough {
				reps = 24
			}
			for _, f := range offs {
				for _, kind := range kinds {
					for _, sticky := range []bool{true, false} {
						for rep := 0; rep < reps; rep++ {
							if !wi.Fast && rep > 0 {
								continue
							}
							W := workerChoices[r.Intn(len(workerChoices))]
							pol := genPolicy(r, estSteps(w, W))
							ch := ChunkSpec{Kind: "full"}
							if r.Intn(3) == 0 {
								ch = chunkFor(w, r)
								if ch.Kind == "fixed" && ch.K < 61 {
									ch.K = 61
								}
							}
							ry := 1
							if ch.Kind != "full" {
								ry = 1 + r.Intn(64)
							}
							burst := 0
							if !sticky {
								burst = []int{0, 0, 2, 4, 6}[r.Intn(5)]
							}
							c := RunConfig{Prop: prop, Workflow: w, Workers: W, Policy: pol,
								Stream: prfStream(r), Chunk: ch, Fault: FaultSpec{Kind: kind, At: f, Sticky: sticky, Burst: burst},
								Runners: RunnerSpec{Mode: "scripted", Seed: r.Uint64()}, ReadYield: ry}
							if r.Intn(8) == 0 {
								c.Prelude = detPrelude(w, r)
							}
							if r.Intn(4) == 0 {
								// the failing device behind another dynamic type: a func
								// adapter, a struct passed by value, a seekable device node
								c.Carrier = []string{"func", "valuestruct", "seeker", "locker"}[r.Intn(4)]
							} else if (kind == "eof" || kind == "ueof") && sticky && r.Intn(3) == 0 {
								// the source that ends early is a truncated file or a short
								// in-memory reader (ReaderAt, Seeker, Len, WriteTo ...)
								c.Carrier = []string{"file", "bytes", "writerto", "fifo"}[r.Intn(4)]
								c.Chunk = ChunkSpec{Kind: "full"}
								c.Prelude = nil
							}
							out = append(out, c)
						}
					}
				}
			}
		}
		// many earlier failing detections in the same process (whatever a
		// failing run leaks - a semaphore slot, a goroutine, a registry entry -
		// adds up): 72 aborted Fast runs, then the observed failing run
		nhist := 3
		if thorough {
			nhist = 60
		}
		for i := 0; i < nhist; i++ {
			w := []string{WPeriodFast, WPeriodFast, WPowerOnFast}[i%3]
			wi := Info(w)
			W := workerChoices[r.Intn(len(workerChoices))]
			var pre []PreludeSpec
			for k := 0; k < 72; k++ {
				pw := []string{WPeriodFast, WPeriodFast, WPeriodFast, WPowerOnFast, WFactoryFast}[r.Intn(5)]
				pi := Info(pw)
				at := int64(r.Intn(3)) * int64(pi.SampleBytes)
				if r.Intn(2) == 0 {
					at += int64(r.Intn(pi.SampleBytes))
				}
				pre = append(pre, PreludeSpec{Workflow: pw, Stream: StreamSpec{Kind: "prf", Seed: r.Uint64()}, Fault: FaultSpec{Kind: []string{"eof", "custom", "partial"}[r.Intn(3)], At: at, Sticky: true}})
			}
			out = append(out, RunConfig{Prop: prop, Workflow: w, Workers: W, Policy: genPolicy(r, estSteps(w, W)),
				Stream: prfStream(r), Chunk: ChunkSpec{Kind: "full"}, Fault: FaultSpec{Kind: "eof", At: int64(r.Intn(wi.Samples)) * int64(wi.SampleBytes), Sticky: true},
				Runners: RunnerSpec{Mode: "scripted", Seed: r.Uint64()}, ReadYield: 1, Prelude: pre, Note: "after-72-failing-runs"})
		}
		// single-shot
		// (beyond 4096: sizes at which an implementation may switch to another
		// way of reading - 64 KiB, 1 MiB and above)
		lens := []int{1, 2, 15, 16, 17, 39, 40, 41, 1279, 1280, 1281, 4096, 65536, 65537, 1 << 20, 1<<20 + 1, 2 << 20, 3000000, 4<<20 + 5}
		for _, nb := range lens {
			fs := map[int]bool{0: true, nb - 1: true, nb / 2: true}
			if nb > 4096 {
				fs[16] = true
				fs[4096] = true
				fs[nb-1-r.Intn(nb/2)] = true
			}
			if thorough {
				for i := 0; i < nb && i < 64; i++ {
					fs[i] = true
				}
			}
			for f := range fs {
				if f < 0 || f >= nb {
					continue
				}
				for _, kind := range kinds {
					for _, sticky := range []bool{true, false} {
						ch := ChunkSpec{Kind: "full"}
						if r.Intn(2) == 0 {
							ch = ChunkSpec{Kind: []string{"rand", "geom", "onethenrest", "fixed"}[r.Intn(4)], K: 1 + r.Intn(7), Seed: r.Uint64()}
						}
						out = append(out, RunConfig{Prop: prop, Workflow: WSingle, NumByte: nb, Workers: 1, Policy: simctl.Policy{Kind: "first"},
							Stream: prfStream(r), Chunk: ch, Fault: FaultSpec{Kind: kind, At: int64(f), Sticky: sticky}, Runners: RunnerSpec{Mode: "scripted"}, ReadYield: 1})
					}
				}
			}
		}
		out = sortFaultPlans(out)
	case "C10":
		reps := 20
		if thorough {
			reps = 2500
		}
		for _, w := range AllWorkflows {
			if w == WSingle {
				continue
			}
			wi := Info(w)
			scs := scenarios(w, r, false)
			n := reps
			if wi.SampleBytes > 2500 && !thorough {
				n = reps / 2
			}
			for i := 0; i < n; i++ {
				sc := scs[r.Intn(len(scs))]
				if i%3 == 0 {
					sc = scs[0]
				}
				for j := 0; j < 3; j++ {
					W := workerChoices[r.Intn(len(workerChoices))]
					pol := genPolicy(r, estSteps(w, W))
					ch := chunkFor(w, r)
					ry := []int{1, 1, 3, 17, 250}[r.Intn(5)]
					if ch.Kind == "fixed" && ch.K < 61 || ch.Kind == "geom" || ch.Kind == "rand" {
						ry = []int{7, 50, 400}[r.Intn(3)]
					}
					c := RunConfig{Prop: prop, Workflow: w, Workers: W, Policy: pol, Stream: prfStream(r), Chunk: ch,
						Fault: FaultSpec{Kind: "none"}, Runners: sc.spec, ReadYield: ry, Note: sc.name}
					if r.Intn(6) == 0 {
						c.Prelude = detPrelude(w, r)
					}
					if r.Intn(8) == 0 {
						c.Companion = detPrelude(w, r)
						c.Companion[0].SameSource = false
					}
					if r.Intn(4) == 0 {
						// whatever read sizes an in-memory reader, a file or a pipe
						// produce, against the simulated device's full reads
						genCarrier(&c, r, wi.Fast)
					}
					out = append(out, c)
				}
			}
		}
		// the third (second, fourth) detection on one and the same file or in-memory
		// reader: earlier healthy detections consumed the bytes in front
		nrep := 12
		if thorough {
			nrep = 300
		}
		for i := 0; i < nrep; i++ {
			w := []string{WPeriodFast, WPeriod, WPeriodFast, WPowerOnFast}[i%4]
			W := workerChoices[r.Intn(len(workerChoices))]
			scs := scenarios(w, r, false)
			var pre []PreludeSpec
			for k := 0; k < 1+r.Intn(3); k++ {
				pw := w
				if r.Intn(4) == 0 {
					pw = Info(w).Sequential
					if pw == "" {
						pw = w + "Fast"
					}
				}
				pre = append(pre, PreludeSpec{Workflow: pw, Stream: StreamSpec{Kind: "prf", Seed: r.Uint64()}, SameSource: true})
			}
			c := RunConfig{Prop: prop, Workflow: w, Workers: W, Policy: genPolicy(r, estSteps(w, W)), Stream: prfStream(r), Chunk: ChunkSpec{Kind: "full"},
				Fault: FaultSpec{Kind: "none"}, Runners: scs[r.Intn(len(scs))].spec, ReadYield: 1, Prelude: pre, Carrier: []string{"file", "bytes"}[i%2],
				CarrierOffset: []int{0, 0, 1250}[r.Intn(3)], Note: "repeated-detections-on-one-file"}
			c.Stream.EOFData = false
			out = append(out, c)
		}
		// a 2500-byte-sample workflow right after a 125000-byte-sample one of
		// the same family, under full and under short reads
		nafter := 12
		if thorough {
			nafter = 400
		}
		for i := 0; i < nafter; i++ {
			w := []string{WPeriodFast, WPeriod}[i%2]
			pw := []string{WPowerOnFast, WFactoryFast}[r.Intn(2)]
			if w == WPeriod {
				pw = []string{WPowerOn, WFactory}[r.Intn(2)]
			}
			W := workerChoices[r.Intn(len(workerChoices))]
			scs := scenarios(w, r, false)
			pre := PreludeSpec{Workflow: pw, Stream: StreamSpec{Kind: "prf", Seed: r.Uint64()}}
			if r.Intn(2) == 0 {
				pre.Fault = FaultSpec{Kind: "eof", At: int64(1+r.Intn(3)) * 125000, Sticky: true}
			}
			st := prfStream(r)
			st.Tail = []int{0, 0, 4096, 300000}[r.Intn(4)]
			c := RunConfig{Prop: prop, Workflow: w, Workers: W, Policy: genPolicy(r, estSteps(w, W)), Stream: st, Chunk: chunkFor(w, r),
				Fault: FaultSpec{Kind: "none"}, Runners: scs[r.Intn(len(scs))].spec, ReadYield: 17, Prelude: []PreludeSpec{pre}, Note: "after-a-larger-sample-workflow"}
			c.Policy.Pool = 0
			out = append(out, c)
		}
		// byte-at-a-time delivery of the 10^6-bit samples (more than 65536 Read
		// calls per sample) and of large single-shot requests
		ntiny := 2
		if thorough {
			ntiny = 24
		}
		for i := 0; i < ntiny; i++ {
			w := []string{WPowerOn, WPowerOnFast, WFactory, WFactoryFast}[i%4]
			if !thorough {
				w = []string{WPowerOn, WPowerOnFast}[i%2]
			}
			W := workerChoices[r.Intn(len(workerChoices))]
			scs := scenarios(w, r, false)
			out = append(out, RunConfig{Prop: prop, Workflow: w, Workers: W, Policy: genPolicy(r, estSteps(w, W)), Stream: prfStream(r),
				Chunk: ChunkSpec{Kind: "fixed", K: 1}, Fault: FaultSpec{Kind: "none"}, Runners: scs[0].spec, ReadYield: 997, Note: "byte-at-a-time"})
		}
		for _, nb := range []int{125000, 200000, 70000} {
			for _, k := range []int{1, 2} {
				out = append(out, RunConfig{Prop: prop, Workflow: WSingle, NumByte: nb, Workers: 1, Policy: simctl.Policy{Kind: "first"},
					Stream: prfStream(r), Chunk: ChunkSpec{Kind: "fixed", K: k}, Fault: FaultSpec{Kind: "none"}, Runners: RunnerSpec{Mode: "scripted"}, ReadYield: 0, Note: "byte-at-a-time"})
			}
		}
		// two single-shot detections overlapping in time, in a process that has
		// done nothing else: the observed one gets its bytes in two or three
		// bursts and the other one runs in between, on a stuck source
		nover := 24
		if thorough {
			nover = 600
		}
		for i := 0; i < nover; i++ {
			nb := 64 + r.Intn(4033)
			cn := []int{16, nb / 2, nb, nb - 1, 40}[r.Intn(5)]
			if cn < 16 {
				cn = 16
			}
			out = append(out, RunConfig{Prop: prop, Workflow: WSingle, NumByte: nb, Workers: workerChoices[r.Intn(len(workerChoices))], Policy: genPolicy(r, 50),
				Stream: prfStream(r), Chunk: ChunkSpec{Kind: "fixed", K: 1 + nb/(2+r.Intn(2))}, Fault: FaultSpec{Kind: "none"}, Runners: RunnerSpec{Mode: "scripted"}, ReadYield: 1,
				Companion: []PreludeSpec{{Workflow: WSingle, NumByte: cn, Stream: StreamSpec{Kind: "const", Byte: []int{0, 0xff}[r.Intn(2)]}}},
				Fresh: i%4 != 3, Note: "overlapping-single-shot"})
		}
		nsingle := 300
		if thorough {
			nsingle = 60000
		}
		for i := 0; i < nsingle; i++ {
			nb := 16 + r.Intn(4081)
			if i%5 == 0 {
				nb = []int{16, 17, 39, 40, 41, 1279, 1280, 1281, 4096}[r.Intn(9)]
			}
			ch := ChunkSpec{Kind: []string{"rand", "geom", "onethenrest", "fixed", "fixed"}[r.Intn(5)], K: 1 + r.Intn(13), Seed: r.Uint64()}
			st := prfStream(r)
			if i%2 == 0 {
				st = StreamSpec{Kind: "biased", Seed: r.Uint64(), Bias: 128 + r.Intn(40) - 20, Tail: r.Intn(3)}
			}
			out = append(out, RunConfig{Prop: prop, Workflow: WSingle, NumByte: nb, Workers: 1, Policy: simctl.Policy{Kind: "first"},
				Stream: st, Chunk: ch, Fault: FaultSpec{Kind: "none"}, Runners: RunnerSpec{Mode: "scripted"}, ReadYield: 1})
		}
	case "C11":
		reps := 1
		if thorough {
			// (a repetition is ~17 000 cases since the boundary contents were added;
			// every engine process holds the whole plan: 300 repetitions were 8 GB each)
			reps = 40
		}
		for rep := 0; rep < reps; rep++ {
			for nb := 0; nb <= 4096; nb++ {
				out = append(out, singleCase(prop, nb, r))
			}
			// around the two m-selection boundaries: contents whose poker
			// verdict differs between the neighbouring pattern lengths
			for _, nb := range []int{36, 37, 38, 39, 40, 41, 42, 43, 44, 1270, 1276, 1278, 1279, 1280, 1281, 1282, 1284, 1290} {
				for _, kind := range []string{"quad", "nibdup", "quad", "nibdup"} {
					c := singleCase(prop, nb, r)
					c.Stream = StreamSpec{Kind: kind, Seed: r.Uint64(), Tail: r.Intn(3)}
					out = append(out, c)
				}
			}
			for _, nb := range []int{4097, 5000, 8192, 10240 / 8, 10240/8 + 1, 10240/8 - 1, 12500, 65536, 125000} {
				out = append(out, singleCase(prop, nb, r))
			}
			// contents on the decision boundary: for every length the two pattern
			// histograms whose poker P-value is closest to alpha from either side
			// (pokeredge.go); any slip of one count, of V's arithmetic or of the
			// comparison flips one of the two verdicts
			for nb := 16; nb <= 4096; nb++ {
				if !thorough && rep == 0 && nb > 400 && nb%3 != 0 && (nb < 1270 || nb > 1300) {
					continue
				}
				for side := 0; side < 2; side++ {
					c := singleCase(prop, nb, r)
					c.Stream = StreamSpec{Kind: "pokeredge", Seed: r.Uint64(), Bias: side, Tail: r.Intn(3), TailSd: r.Uint64()}
					c.Prelude, c.Companion, c.Carrier, c.CarrierOffset = nil, nil, "", 0
					c.Note = "poker-p-next-to-alpha"
					out = append(out, c)
				}
			}
			// a device stuck at one byte value is not always a sample the poker
			// test rejects: the 24 byte values made of four different 2-bit groups
			// (0x1B, 0x1E, ... 0xE4) repeat to a perfectly flat m=2 histogram. Every
			// such value at every m=2 length, plus any constant byte at a few.
			for nb := 16; nb < 40; nb++ {
				for b := 0; b < 256; b++ {
					seen := [4]bool{}
					for sh := uint(0); sh < 8; sh += 2 {
						seen[(b>>sh)&3] = true
					}
					flat := seen[0] && seen[1] && seen[2] && seen[3]
					if !flat && r.Intn(40) != 0 {
						continue
					}
					c := singleCase(prop, nb, r)
					c.Stream = StreamSpec{Kind: "const", Byte: b}
					c.Prelude, c.Companion, c.Carrier, c.CarrierOffset = nil, nil, "", 0
					if flat {
						c.Note = "constant-byte-with-flat-dibit-histogram"
					}
					out = append(out, c)
				}
			}
			// selected larger lengths: around powers of two and multiples of 65536
			// (where narrow counters wrap), on constant, biased and PRF contents
			for _, nb := range []int{65535, 65536, 65537, 131072, 196608, 262143, 262144, 262145, 270000, 327680, 524288, 1 << 20, 1<<20 + 1000, 1<<21 + 7, 1 << 22} {
				for k := 0; k < 3; k++ {
					c := singleCase(prop, nb, r)
					c.Chunk = ChunkSpec{Kind: "full"}
					c.Prelude = nil
					switch k {
					case 0:
						c.Stream = StreamSpec{Kind: "const", Byte: []int{0, 0xff, r.Intn(256)}[r.Intn(3)]}
					case 1:
						c.Stream = StreamSpec{Kind: "biased", Seed: r.Uint64(), Bias: 126 + r.Intn(5)}
					default:
						c.Stream = prfStream(r)
					}
					out = append(out, c)
				}
			}
			// call histories within one pattern-length regime: a somewhat longer
			// request came first, on contrasting content (stuck device then a
			// healthy one, or the reverse). A scratch buffer kept between calls
			// at its old length only shows here.
			for i := 0; i < 400; i++ {
				var nb int
				switch i % 4 {
				case 0, 1:
					nb = 16 + r.Intn(24) // m = 2
				case 2:
					nb = 40 + r.Intn(1240) // m = 4
				default:
					nb = 1280 + r.Intn(2817) // m = 8
				}
				c := singleCase(prop, nb, r)
				pn := nb + 1 + r.Intn(1+nb/2)
				if i%4 < 2 && pn > 39 && r.Intn(4) > 0 {
					pn = nb + 1 + r.Intn(40-nb)
					if pn > 39 {
						pn = 39
					}
					if pn <= nb {
						pn = nb + 1
					}
				}
				if i%2 == 0 {
					c.Stream = prfStream(r)
					c.Prelude = []PreludeSpec{{Workflow: WSingle, NumByte: pn, Stream: StreamSpec{Kind: "const", Byte: []int{0x00, 0xff, 0x55}[r.Intn(3)]}}}
				} else {
					c.Stream = StreamSpec{Kind: "biased", Seed: r.Uint64(), Bias: []int{96, 104, 150, 160}[r.Intn(4)], Tail: r.Intn(3)}
					c.Prelude = []PreludeSpec{{Workflow: WSingle, NumByte: pn, Stream: StreamSpec{Kind: "prf", Seed: r.Uint64()}}}
				}
				c.Note = "same-regime-history"
				out = append(out, c)
			}
		}
	case "C14":
		out = planC14(prop, thorough, r)
	}
	for i := range out {
		capReadYield(&out[i])
	}
	// a sample of the cases runs in a process of its own (first use of the
	// library in that process): preferably cases with a history or a companion
	fr := simctl.NewRand(simctl.Mix(seed, 0xf5e5))
	budget := 48
	if thorough {
		budget = 1500
	}
	if len(out) > 0 {
		stride := len(out)/budget + 1
		for i := fr.Intn(stride); i < len(out) && budget > 0; i += 1 + fr.Intn(2*stride) {
			if out[i].Runners.Mode == "real" && Info(out[i].Workflow).SampleBytes > 2500 {
				continue
			}
			out[i].Fresh = true
			budget--
		}
	}
	// families that every run must contain whatever the draws above came to
	// (appended behind everything else, from a PRNG of their own: the cases
	// above do not depend on them)
	return append(out, fixedFamilies(prop, thorough, simctl.NewRand(simctl.Mix(seed, 0xf1c5ed)))...)
}

// fixedFamilies are small case families enumerated in every run instead of
// being left to the draw: kinds of source object, transient error kinds, poker
// boundary contents at large lengths.
func fixedFamilies(prop string, thorough bool, r *simctl.Rand) []RunConfig {
	var out []RunConfig
	reps := 1
	if thorough {
		reps = 12
	}
	switch prop {
	case "C10":
		for rep := 0; rep < reps; rep++ {
			for _, kind := range []string{"fifo", "writerto", "bytes", "file", "pipe", "bufio", "func", "valuestruct", "seeker", "locker"} {
				for _, w := range []string{WPeriod, WPeriodFast, WPowerOn, WFactoryFast} {
					W := workerChoices[r.Intn(len(workerChoices))]
					c := RunConfig{Prop: prop, Workflow: w, Workers: W, Policy: genPolicy(r, estSteps(w, W)), Stream: prfStream(r), Chunk: ChunkSpec{Kind: "full"},
						Fault: FaultSpec{Kind: "none"}, Runners: RunnerSpec{Mode: "scripted", Seed: r.Uint64()}, ReadYield: 1, Carrier: kind, Note: "every-carrier-kind"}
					switch kind {
					case "func", "valuestruct", "seeker", "locker":
						c.Chunk = chunkFor0(w, r)
						c.ReadYield = []int{7, 50, 400}[r.Intn(3)]
					case "bufio":
						c.CarrierOffset = r.Intn(6)
					case "bytes", "file":
						c.CarrierOffset = []int{0, 1250, 4096}[r.Intn(3)]
						c.Stream.EOFData = false
					case "writerto":
						c.CarrierOffset = r.Intn(4)
						c.Stream.EOFData = false
					default:
						c.Stream.EOFData = false
					}
					out = append(out, c)
				}
			}
		}
	case "C08":
		// one transient failure of every error kind, in the middle of a sample
		// and on a sample boundary: the sequential workflow stops with (false,
		// err), so must the Fast one
		for rep := 0; rep < reps; rep++ {
			for _, w := range []string{WPeriodFast, WPowerOnFast, WFactoryFast} {
				wi := Info(w)
				for _, kind := range []string{"temporary", "wrapeof", "listerr", "custom", "partial"} {
					for pos := 0; pos < 2; pos++ {
						W := workerChoices[r.Intn(len(workerChoices))]
						at := int64(r.Intn(wi.Samples)) * int64(wi.SampleBytes)
						if pos == 1 {
							at += int64(1 + r.Intn(wi.SampleBytes-1))
						}
						out = append(out, RunConfig{Prop: prop, Workflow: w, Workers: W, Policy: genPolicy(r, estSteps(w, W)),
							Stream: prfStream(r), Chunk: ChunkSpec{Kind: "full"}, Fault: FaultSpec{Kind: kind, At: at, Sticky: false},
							Runners: RunnerSpec{Mode: "scripted", Seed: r.Uint64()}, ReadYield: 1, Note: "transient-source-error-every-kind"})
					}
				}
			}
		}
	case "C11":
		// poker-boundary contents at large lengths, under worker counts that do
		// not divide them (what is split over workers leaves a remainder there)
		for rep := 0; rep < reps; rep++ {
			for k, nb := range []int{65535, 65536, 65537, 98304, 131072, 196608, 262144, 262145, 524288, 1 << 20, 1<<20 + 1000} {
				for side := 0; side < 2; side++ {
					c := singleCase(prop, nb, r)
					c.Workers = []int{3, 5, 6, 7, 12, 16, 24}[(k+side+rep)%7]
					c.Chunk = ChunkSpec{Kind: "full"}
					c.Stream = StreamSpec{Kind: "pokeredge", Seed: r.Uint64(), Bias: side, Tail: r.Intn(3), TailSd: r.Uint64()}
					c.Prelude, c.Companion, c.Carrier, c.CarrierOffset = nil, nil, "", 0
					c.Note = "poker-p-next-to-alpha-large"
					out = append(out, c)
				}
			}
			// an earlier, longer request was cut short by a failing source; then
			// two calls overlap (the observed one on a healthy source read in two
			// parts, a companion on a stuck one): whatever the failed call left
			// behind - a buffer given back twice, say - is shared by the two
			for _, nb := range []int{16, 40, 64, 160, 1280, 4096} {
				for k := 0; k < 6; k++ {
					c := singleCase(prop, nb, r)
					pn := 2*nb + 64
					c.Stream = prfStream(r)
					c.Chunk = ChunkSpec{Kind: "fixed", K: 1 + nb/2}
					c.ReadYield = 1
					c.Carrier, c.CarrierOffset = "", 0
					c.Policy = simctl.Policy{Kind: "random", Seed: r.Uint64()}
					c.Workers = 4
					c.Prelude = []PreludeSpec{{Workflow: WSingle, NumByte: pn, Stream: StreamSpec{Kind: "prf", Seed: r.Uint64()},
						Fault: FaultSpec{Kind: []string{"eof", "custom"}[k%2], At: int64(r.Intn(pn)), Sticky: true}}}
					c.Companion = []PreludeSpec{{Workflow: WSingle, NumByte: []int{nb, nb + 8, pn}[k%3], Stream: StreamSpec{Kind: "const", Byte: []int{0, 0xff}[k%2]}}}
					c.Note = "failed-earlier-call-then-overlapping-calls"
					out = append(out, c)
				}
			}
		}
	}
	return out
}

func singleCase(prop string, nb int, r *simctl.Rand) RunConfig {
	var st StreamSpec
	switch r.Intn(6) {
	case 0:
		st = StreamSpec{Kind: "const", Byte: r.Intn(256)}
	case 1, 2:
		// bias near the point where the poker verdict flips
		st = StreamSpec{Kind: "biased", Seed: r.Uint64(), Bias: 128 + r.Intn(64) - 32, Tail: r.Intn(5)}
	case 3:
		p := make([]byte, 1+r.Intn(8))
		for i := range p {
			p[i] = byte(r.Intn(256))
		}
		st = StreamSpec{Kind: "periodic", Period: hex.EncodeToString(p)}
	default:
		st = prfStream(r)
	}
	ch := ChunkSpec{Kind: "full"}
	if r.Intn(2) == 0 {
		ch = ChunkSpec{Kind: []string{"rand", "geom", "onethenrest", "fixed"}[r.Intn(4)], K: 1 + r.Intn(9), Seed: r.Uint64()}
	}
	c := RunConfig{Prop: prop, Workflow: WSingle, NumByte: nb, Workers: workerChoices[r.Intn(len(workerChoices))], Policy: simctl.Policy{Kind: "first"},
		Stream: st, Chunk: ch, Fault: FaultSpec{Kind: "none"}, Runners: RunnerSpec{Mode: "scripted"}, ReadYield: 1}
	if st.Kind != "const" && st.Kind != "periodic" && st.Tail == 0 {
		st.EOFData = r.Intn(2) == 0
		c.Stream = st
	}
	if r.Intn(2) == 0 {
		// an earlier single-shot detection of another length on another source:
		// far away, or a little longer / shorter (same pattern-length regime)
		pn := []int{16, 64, 1280, 4096, 8192, 16 + r.Intn(8000), nb + 1 + r.Intn(24), nb + 1 + r.Intn(24), 2 * nb, nb - 1 - r.Intn(8)}[r.Intn(10)]
		if pn < 16 {
			pn = 16
		}
		pk := []string{"prf", "prf", "const"}[r.Intn(3)]
		c.Prelude = []PreludeSpec{{Workflow: WSingle, NumByte: pn, Stream: StreamSpec{Kind: pk, Seed: r.Uint64(), Byte: r.Intn(256)}}}
	}
	if r.Intn(9) == 0 {
		// the previous call - on another source object - received exactly the
		// same sample (a replayed capture, a second look at the same data): the
		// verdict is a function of the bytes, not of what came before
		c.Prelude = []PreludeSpec{{Workflow: WSingle, NumByte: nb, Stream: c.Stream}}
		c.Note = "same-sample-as-the-previous-call"
	}
	if st.Kind != "const" && st.Kind != "periodic" && r.Intn(8) == 0 {
		genCarrier(&c, r, false)
	}
	if c.Carrier == "" && c.Chunk.Kind != "full" && r.Intn(6) == 0 {
		// a polled, slow device: empty reads, and reads that take seconds
		c.Chunk.Empty = 2
		c.Chunk.Delay, c.Chunk.DelaySec = 1+r.Intn(3), []int{2, 30, 600}[r.Intn(3)]
	}
	if len(c.Prelude) > 0 && r.Intn(3) == 0 {
		// the earlier call was cut short by a failing source
		c.Prelude[0].Fault = FaultSpec{Kind: []string{"eof", "custom"}[r.Intn(2)], At: int64(r.Intn(c.Prelude[0].NumByte)), Sticky: true}
	}
	if c.Carrier == "" && r.Intn(6) == 0 {
		// another single-shot detection overlaps this one (on its own source):
		// with a chunked source it runs between two of our reads
		cn := []int{16, 40, nb, nb + 1 + r.Intn(64), 4096, 16 + r.Intn(8000)}[r.Intn(6)]
		if cn < 16 {
			cn = 16
		}
		c.Companion = []PreludeSpec{{Workflow: WSingle, NumByte: cn, Stream: StreamSpec{Kind: []string{"const", "prf"}[r.Intn(2)], Seed: r.Uint64(), Byte: []int{0, 0xff}[r.Intn(2)]}}}
		if c.Chunk.Kind == "full" && nb > 1 {
			c.Chunk = ChunkSpec{Kind: "fixed", K: 1 + nb/2}
		}
	}
	return c
}

// GroupSize is the number of adjacent plan entries that share a comparison run
// and are therefore kept in one process.
func GroupSize(prop, tier string) int {
	if prop == "C08" {
		if tier == "thorough" {
			return 160
		}
		return 8
	}
	return 1
}

// sortFaultPlans keeps generation order (already deterministic).
func sortFaultPlans(c []RunConfig) []RunConfig { return c }

func planC14(prop string, thorough bool, r *simctl.Rand) []RunConfig {
	var out []RunConfig
	add := func(w string, st StreamSpec, note string) {
		wi := Info(w)
		W := workerChoices[r.Intn(len(workerChoices))]
		pol := genPolicy(r, estSteps(w, W))
		_ = wi.Fast
		c := RunConfig{Prop: prop, Workflow: w, Workers: W, Policy: pol, Stream: st, Chunk: ChunkSpec{Kind: "full"},
			Fault: FaultSpec{Kind: "none"}, Runners: RunnerSpec{Mode: "real"}, ReadYield: 1, Note: note}
		// independent draws, so that pairs of conditions coincide now and then
		if wi.SampleBytes == 2500 && r.Intn(4) == 0 {
			// the device was healthy during an earlier detection and is stuck now
			c.Prelude = []PreludeSpec{{Workflow: w, Stream: StreamSpec{Kind: "prf", Seed: r.Uint64()}}}
		}
		if wi.SampleBytes == 2500 && r.Intn(5) == 0 {
			// another detection of the same kind runs at the same time on a healthy device
			c.Companion = []PreludeSpec{{Workflow: w, Stream: StreamSpec{Kind: "prf", Seed: r.Uint64()}}}
		}
		if r.Intn(5) == 0 {
			c.Carrier = []string{"func", "valuestruct", "seeker", "locker"}[r.Intn(4)]
		}
		if wi.SampleBytes == 2500 && r.Intn(8) == 0 {
			// the stuck device also glitches: a short burst of read errors, then it delivers
			// (its stuck stream) again - still (false, non-nil error)
			c.Fault = FaultSpec{Kind: []string{"temporary", "custom", "wrapeof"}[r.Intn(3)], At: int64(r.Intn(50000)), Burst: 1 + r.Intn(6)}
		}
		if wi.SampleBytes == 2500 && r.Intn(6) == 0 {
			// ... or goes idle for a while: short reads and a long run of (0, nil) answers
			c.Chunk = ChunkSpec{Kind: "fixed", K: []int{16, 64, 700}[r.Intn(3)], EmptyRun: []int{5, 100, 250}[r.Intn(3)], EmptyAfter: 1 + r.Intn(3)}
			c.ReadYield = 9
		}
		out = append(out, c)
	}
	small := []string{WPeriod, WPeriodFast}
	// all 256 constant bytes
	for b := 0; b < 256; b++ {
		for _, w := range small {
			add(w, StreamSpec{Kind: "const", Byte: b}, "stuck-at")
		}
	}
	// short cycles
	contents := func(n int) [][]byte {
		var cs [][]byte
		rnd := make([]byte, n)
		for i := range rnd {
			rnd[i] = byte(r.Intn(256))
		}
		cs = append(cs, rnd)
		one := make([]byte, n)
		pos := r.Intn(n * 8)
		one[pos/8] = 0x80 >> uint(pos%8)
		cs = append(cs, one)
		zero := make([]byte, n)
		for i := range zero {
			zero[i] = 0xff
		}
		pos = r.Intn(n * 8)
		zero[pos/8] &^= 0x80 >> uint(pos%8)
		cs = append(cs, zero)
		alt := make([]byte, n)
		for i := range alt {
			alt[i] = []byte{0x55, 0xaa, 0x0f, 0x33}[r.Intn(4)]
		}
		alt[r.Intn(n)] ^= byte(1 << uint(r.Intn(8)))
		cs = append(cs, alt)
		low := make([]byte, n)
		for k := 0; k < 1+n/8; k++ {
			p := r.Intn(n * 8)
			low[p/8] |= 0x80 >> uint(p%8)
		}
		cs = append(cs, low)
		return cs
	}
	for n := 2; n <= 64; n++ {
		for _, c := range contents(n) {
			for _, w := range small {
				if !thorough && r.Intn(2) == 0 {
					continue
				}
				add(w, StreamSpec{Kind: "periodic", Period: hex.EncodeToString(c)}, "short-cycle")
			}
		}
	}
	// the 10^6-bit workflows: a few in quick, many in thorough
	big := []string{WPowerOn, WPowerOnFast}
	nbig := 4
	if thorough {
		big = []string{WPowerOn, WPowerOnFast, WFactory, WFactoryFast}
		nbig = 240
	}
	for i := 0; i < nbig; i++ {
		w := big[i%len(big)]
		switch i % 3 {
		case 0:
			add(w, StreamSpec{Kind: "const", Byte: []int{0x00, 0xff, 0x55, 0xa5, r.Intn(256)}[r.Intn(5)]}, "stuck-at-big")
		default:
			n := 2 + r.Intn(63)
			cs := contents(n)
			add(w, StreamSpec{Kind: "periodic", Period: hex.EncodeToString(cs[r.Intn(len(cs))])}, "short-cycle-big")
		}
	}
	// one set (or cleared) bit per 63/64-byte period, at chosen bit positions:
	// every 500-bit block of a 10^6-bit sample then holds at most one set
	// bit, at a position that walks through the block (Berlekamp-Massey's
	// late-first-discrepancy path). Quick: four positions per residue class
	// mod 4; thorough: every position.
	for _, n := range []int{64, 63} {
		var poss []int
		if thorough {
			for p := 0; p < n*8; p++ {
				poss = append(poss, p)
			}
		} else if n == 64 {
			for res := 0; res < 4; res++ {
				for k := 0; k < 2; k++ {
					poss = append(poss, 4*r.Intn(n*2)+res)
				}
			}
		} else {
			poss = []int{4*r.Intn(n*2) + 3, 4 * r.Intn(n*2)}
		}
		for i, p := range poss {
			c := make([]byte, n)
			c[p/8] = 0x80 >> uint(p%8)
			note := "single-one-per-period"
			if thorough && i%8 == 7 {
				for j := range c {
					c[j] ^= 0xff
				}
				note = "single-zero-per-period"
			}
			w := []string{WPowerOn, WPowerOnFast}[i%2]
			if thorough && i%16 == 3 {
				w = []string{WFactory, WFactoryFast}[(i/16)%2]
			}
			add(w, StreamSpec{Kind: "periodic", Period: hex.EncodeToString(c)}, note)
		}
	}
	// single-shot: all-zero and all-one at every admissible length
	for nb := 16; nb <= 4096; nb++ {
		if !thorough && nb > 400 && nb%7 != 0 && nb != 1279 && nb != 1280 && nb != 1281 && nb != 4096 {
			continue
		}
		for _, b := range []int{0x00, 0xff} {
			c := singleCase(prop, nb, r)
			c.Stream = StreamSpec{Kind: "const", Byte: b}
			c.Note = "single-stuck"
			c.Prelude = nil
			if r.Intn(2) == 0 {
				// a larger request on a healthy source came first
				c.Prelude = []PreludeSpec{{Workflow: WSingle, NumByte: []int{4096, 8192, 2 * nb, nb + 1 + r.Intn(4096)}[r.Intn(4)], Stream: StreamSpec{Kind: "prf", Seed: r.Uint64()}}}
			}
			out = append(out, c)
		}
	}
	// "all lengths >= 16 bytes": beyond 4096 a sample of lengths where counters
	// and size classes change - powers of two and their neighbours up to 2^24,
	// multiples of 65536 and of 2^20, and a few seeded ones
	bigLens := []int{5000, 12500, 125000, 1000000, 12500000}
	for e := uint(13); e <= 24; e++ {
		bigLens = append(bigLens, 1<<e-1, 1<<e, 1<<e+1)
	}
	for k := 1; k <= 24; k++ {
		bigLens = append(bigLens, 65536*k, 65536*k+r.Intn(4096))
	}
	for k := 0; k < 6; k++ {
		bigLens = append(bigLens, 4097+r.Intn(1<<22))
	}
	for i, nb := range bigLens {
		if !thorough && nb > 1<<21 && i%3 != 0 {
			continue
		}
		for _, b := range []int{0x00, 0xff} {
			c := singleCase(prop, nb, r)
			c.Stream = StreamSpec{Kind: "const", Byte: b}
			c.Chunk = ChunkSpec{Kind: "full"}
			c.Prelude = nil
			c.Note = "single-stuck-big"
			out = append(out, c)
		}
	}
	return out
}
