package detectsim

import (
	"io"
	"os"
	"strconv"
	"strings"
	"testing"
	"time"

	"github.com/Trisia/randomness/detect"
	"github.com/Trisia/randomness/simrt"
	"github.com/Trisia/randomness/simrt/simctl"
)

// Outcome is everything observed about one simulated workflow execution.
type Outcome struct {
	Cfg       *RunConfig
	Returned  bool
	Verdict   bool
	Err       string
	ErrNil    bool
	NamedItem int // registry index of the item named by the error, -1: none
	Sim       simctl.Result
	Calls     []Call
	// CallsAtReturn is the number of runner calls completed when the workflow
	// returned (-1: not observed, e.g. race monitor)
	CallsAtReturn int
	Observed      map[int]map[int]Cell
	Matrix    [][]Cell
	Src       SrcStats
	Stream    *Stream
}

// SrcStats is the device-side accounting.
type SrcStats struct {
	Reads      int       `json:"reads"`
	Delivered  int64     `json:"delivered"`
	Requested  int64     `json:"requested"`
	FaultFired int       `json:"fault_fired"`
	ErrReturns int       `json:"err_returns"`
	EOFReturns int       `json:"eof_returns"`
	MaxInRead  int       `json:"max_in_read"`
	ShortReads int       `json:"short_reads"`
	EOFWithData int      `json:"eof_with_data"`
	FirstErrAt int64     `json:"first_err_at"`
	Log        []ReadRec `json:"log,omitempty"`
}

func callWorkflow(name string, src io.Reader, numByte int) (bool, error) {
	switch name {
	case WFactory:
		return detect.FactoryDetect(src)
	case WPowerOn:
		return detect.PowerOnDetect(src)
	case WPeriod:
		return detect.PeriodDetect(src)
	case WFactoryFast:
		return detect.FactoryDetectFast(src)
	case WPowerOnFast:
		return detect.PowerOnDetectFast(src)
	case WPeriodFast:
		return detect.PeriodDetectFast(src)
	case WSingle:
		return detect.SingleDetect(src, numByte)
	}
	panic("unknown workflow " + name)
}

// NameItem returns the registry index of the test item an error message names.
func NameItem(msg string) int {
	best, bl := -1, 0
	for i, n := range ItemNames {
		if strings.Contains(msg, n) && len(n) > bl {
			best, bl = i, len(n)
		}
	}
	return best
}

// withStdout runs f with os.Stdout in the given condition ("": as it is, i.e.
// discarded; closed: a closed file, every write fails; pipe-closed: a pipe
// whose reading end has gone). A library that prints diagnostics must not let
// their fate decide its results.
func withStdout(mode string, f func()) {
	if mode == "" {
		f()
		return
	}
	old := os.Stdout
	var w *os.File
	if mode == "closed" {
		w, _ = os.CreateTemp(".", "closed-stdout-*")
		if w != nil {
			_ = os.Remove(w.Name())
			_ = w.Close()
		}
	} else {
		r, pw, err := os.Pipe()
		if err == nil {
			_ = r.Close()
			w = pw
			defer pw.Close()
		}
	}
	if w != nil {
		os.Stdout = w
	}
	defer func() { os.Stdout = old }()
	f()
}

// StepBudget is the liveness bound in scheduler steps for a configuration:
// forty times a generous estimate of the fault-free step count. A hang is
// decided by quiescence; this bound only guards against livelock, so it is
// deliberately far above what any reasonable implementation needs.
func StepBudget(c *RunConfig) int {
	pre := 0
	for _, p := range append(append([]PreludeSpec(nil), c.Prelude...), c.Companion...) {
		pre += 2*p.NumByte + 2000
		if p.Workflow != WSingle {
			pre += Info(p.Workflow).Samples*48 + 14*c.Workers + 400
		}
	}
	if c.Workflow == WSingle {
		return 40 * (5000 + 4*c.NumByte + pre)
	}
	wi := Info(c.Workflow)
	perSample := 15 + 15 + 12
	est := wi.Samples*perSample + 12*c.Workers + 200
	if c.ReadYield > 0 {
		// upper bound on device scheduling points: every read may be one
		minChunk := 1
		switch c.Chunk.Kind {
		case "full":
			minChunk = wi.SampleBytes
		case "fixed", "devchunk":
			if c.Chunk.K > 0 {
				minChunk = c.Chunk.K
			}
		}
		reads := int(c.Required())/minChunk + wi.Samples*2 + 64
		est += reads/c.ReadYield + wi.Samples
		// code that calls source.Read itself (instead of io.ReadFull) gets a
		// scheduling point per Read from the instrumenter
		est += reads
	}
	return 40 * (est + pre)
}

// ExecutePlain runs one configuration with real goroutines and no controller:
// the race monitor (pristine packages built with -race). The schedule is not
// controlled; PRNG-chosen runtime.Gosched bursts inside device reads and
// runner calls only stir it.
func ExecutePlain(cfg *RunConfig, timeout time.Duration) *Outcome {
	st := BuildStream(cfg.Stream, cfg.Required())
	src := NewSimSource(st, cfg, false)
	rs := NewRunState(cfg, st, false)
	setCurrent(rs)
	defer setCurrent(nil)
	out := &Outcome{Cfg: cfg, NamedItem: -1, Stream: st, CallsAtReturn: -1}
	done := make(chan struct{})
	var v bool
	var err error
	go func() {
		defer close(done)
		v, err = callWorkflow(cfg.Workflow, src, cfg.NumByte)
	}()
	select {
	case <-done:
		out.Verdict = v
		out.ErrNil = err == nil
		if err != nil {
			out.Err = err.Error()
			out.NamedItem = NameItem(out.Err)
		}
		out.Returned = true
	case <-time.After(timeout):
	}
	out.Sim.MainReturned = out.Returned
	out.Sim.Hang = !out.Returned
	rs.mu.Lock()
	out.Calls = rs.Calls
	out.Observed = rs.Observed
	out.Matrix = rs.matrix
	rs.mu.Unlock()
	src.mu.Lock()
	out.Src = SrcStats{src.Reads, src.Delivered, src.Requested, src.FaultFired, src.ErrReturns, src.EOFReturns, src.MaxInRead, src.ShortReads, src.EOFWithData, src.FirstErrAt, src.Log}
	src.mu.Unlock()
	return out
}

// softWall is the real-time allowance of one simulated run before it is
// abandoned as inconclusive (VERIF_SOFT_WALL seconds; default 100).
var softWall = func() time.Duration {
	if v, err := strconv.Atoi(os.Getenv("VERIF_SOFT_WALL")); err == nil && v > 0 {
		return time.Duration(v) * time.Second
	}
	return 100 * time.Second
}()

// softWallFor: scripted runs cost milliseconds to a second or two, real-runner
// runs on 10^6-bit samples up to a minute under load.
func softWallFor(c *RunConfig) time.Duration {
	if os.Getenv("VERIF_SOFT_WALL") != "" {
		return softWall
	}
	if c.Runners.Mode == "real" {
		return 6 * time.Minute
	}
	return 30 * time.Second
}

// Execute runs one configuration under the simulator.
func Execute(t *testing.T, cfg *RunConfig) *Outcome {
	st := BuildStream(cfg.Stream, cfg.Required())
	src := NewSimSource(st, cfg, true)
	rs := NewRunState(cfg, st, true)
	setCurrent(rs)
	defer setCurrent(nil)
	out := &Outcome{Cfg: cfg, NamedItem: -1, Stream: st, CallsAtReturn: -1}
	var car *carrier
	// earlier calls made on the very carrier object (a file or an in-memory
	// reader that is simply used again): their bytes come first in it
	var prefix []byte
	sameCarrier := map[int]bool{}
	if cfg.Carrier == "bytes" || cfg.Carrier == "file" {
		for pi, pre := range cfg.Prelude {
			if pre.SameSource && (pre.Fault.Kind == "" || pre.Fault.Kind == "none") {
				pc := RunConfig{Workflow: pre.Workflow, NumByte: pre.NumByte}
				pst := BuildStream(pre.Stream, pc.Required())
				if pst.Len() >= 0 {
					prefix = append(prefix, pst.data[:pc.Required()]...)
					sameCarrier[pi] = true
				}
			}
		}
	}
	if cfg.Carrier != "" {
		var cerr error
		car, cerr = buildCarrier(cfg, st, src, prefix)
		if cerr != nil {
			t.Fatalf("carrier %s: %v", cfg.Carrier, cerr)
		}
		if car != nil {
			defer car.cleanup()
		}
	}
	nestedDetect = func(wf string) {
		// runner calls made by the tasks the nested detection spawns are not the
		// observed call's
		rs.addNested(simrt.CurrentID())
		nc := RunConfig{Workflow: wf, Stream: StreamSpec{Kind: "prf", Seed: cfg.Stream.Seed ^ 0x5e1f}, Chunk: ChunkSpec{Kind: "full"}, Fault: FaultSpec{Kind: "none"}}
		nst := BuildStream(nc.Stream, nc.Required())
		callWorkflow(wf, NewSimSource(nst, &nc, true), 0)
	}
	defer func() { nestedDetect = nil }()
	var handed io.Reader = src
	if car != nil {
		handed = car.src
	}
	var shared *switchSource
	for _, pre := range cfg.Prelude {
		if pre.SameSource && car == nil {
			shared = &switchSource{}
		}
	}
	body := func() {
		for pi, pre := range cfg.Prelude {
			if sameCarrier[pi] && car != nil {
				rs.setPrelude(true)
				callWorkflow(pre.Workflow, car.src, pre.NumByte)
				rs.setPrelude(false)
				continue
			}
			pc := RunConfig{Workflow: pre.Workflow, NumByte: pre.NumByte, Stream: pre.Stream, Chunk: ChunkSpec{Kind: "full"}, Fault: pre.Fault}
			if pc.Fault.Kind == "" {
				pc.Fault.Kind = "none"
			}
			pst := BuildStream(pre.Stream, pc.Required())
			rs.setPrelude(true)
			var psrc io.Reader = NewSimSource(pst, &pc, true)
			if pre.SameSource && shared != nil {
				shared.set(psrc)
				psrc = shared
			}
			callWorkflow(pre.Workflow, psrc, pre.NumByte)
			rs.setPrelude(false)
		}
		if shared != nil {
			shared.set(handed)
			handed = shared
		}
		for _, co := range cfg.Companion {
			cc := RunConfig{Workflow: co.Workflow, NumByte: co.NumByte, Stream: co.Stream, Chunk: ChunkSpec{Kind: "full"}, Fault: co.Fault, ReadYield: 1}
			if cc.Fault.Kind == "" {
				cc.Fault.Kind = "none"
			}
			// (twice what it needs: should the observed call help itself to the
			// companion's source, the bytes do not run out before a verdict)
			cst := BuildStream(co.Stream, 2*cc.Required())
			csrc := NewSimSource(cst, &cc, true)
			ct := simrt.Child("companion")
			if ct == nil {
				continue
			}
			rs.addCompanion(ct.ID)
			wf, nb := co.Workflow, co.NumByte
			// the companion's source is the same kind of Go object as the observed one
			var chanded io.Reader = csrc
			switch cfg.Carrier {
			case "func":
				chanded = readerFunc(csrc.Read)
			case "valuestruct":
				chanded = valueSource{dev: csrc, tags: []string{"rng1"}}
			case "seeker":
				chanded = seekableSim{dev: csrc}
			case "locker":
				chanded = &lockerSource{dev: csrc}
			}
			go simrt.RunTask(ct, func() { callWorkflow(wf, chanded, nb) })
		}
		if len(cfg.Companion) > 0 {
			// let the scheduler decide who gets going first
			simrt.Yield("companions-started")
		}
		v, err := callWorkflow(cfg.Workflow, handed, cfg.NumByte)
		out.Verdict = v
		out.ErrNil = err == nil
		if err != nil {
			out.Err = err.Error()
			out.NamedItem = NameItem(out.Err)
		}
		out.Returned = true
	}
	opt := simctl.Options{
		OnMainReturn: func(int) {
			rs.mu.Lock()
			out.CallsAtReturn = len(rs.Calls)
			rs.mu.Unlock()
		},
		NumCPU:    cfg.Workers,
		Policy:    cfg.Policy,
		Picks:     cfg.Picks,
		MaxSteps:  StepBudget(cfg),
		KeepTrace: 400,
		WallLimit: 15 * time.Minute,
		SoftWall:  softWallFor(cfg),
	}
	withStdout(cfg.Stdio, func() { out.Sim = simctl.Run(t, opt, body) })
	rs.mu.Lock()
	out.Calls = rs.Calls
	out.Observed = rs.Observed
	out.Matrix = rs.matrix
	rs.mu.Unlock()
	src.mu.Lock()
	out.Src = SrcStats{src.Reads, src.Delivered, src.Requested, src.FaultFired, src.ErrReturns, src.EOFReturns, src.MaxInRead, src.ShortReads, src.EOFWithData, src.FirstErrAt, src.Log}
	src.mu.Unlock()
	if car != nil {
		out.Src.Delivered = car.consumed()
	}
	return out
}
