package detectsim

import (
	"encoding/hex"
	"errors"
	"fmt"
	"io"
	"runtime"
	"strings"
	"sync"
	"time"

	"github.com/Trisia/randomness/simrt"
	"github.com/Trisia/randomness/simrt/simctl"
)

// ErrDevice is the custom error a simulated device fails with.
var ErrDevice = errors.New("simulated device failure")

// Stream is the content the simulated device produces.
type Stream struct {
	data    []byte // finite part (prf, literal, biased)
	period  []byte // periodic / const: repeated forever
	eofData bool   // the last bytes are handed out together with io.EOF
}

// Len returns the stream length, -1 for an endless one.
func (s *Stream) Len() int64 {
	if s.period != nil {
		return -1
	}
	return int64(len(s.data))
}

// ReadAt copies stream bytes starting at off.
func (s *Stream) ReadAt(off int64, p []byte) int {
	if s.period != nil {
		n := len(s.period)
		j := int(off % int64(n))
		for i := range p {
			p[i] = s.period[j]
			j++
			if j == n {
				j = 0
			}
		}
		return len(p)
	}
	if off >= int64(len(s.data)) {
		return 0
	}
	return copy(p, s.data[off:])
}

// Slice returns bytes [off, off+n) of the stream (nil if beyond the end).
func (s *Stream) Slice(off int64, n int) []byte {
	if s.period == nil {
		if off+int64(n) > int64(len(s.data)) {
			return nil
		}
		return s.data[off : off+int64(n)]
	}
	b := make([]byte, n)
	s.ReadAt(off, b)
	return b
}

func fillPRF(b []byte, seed uint64) {
	r := simctl.NewRand(seed)
	i := 0
	for ; i+8 <= len(b); i += 8 {
		v := r.Uint64()
		b[i] = byte(v)
		b[i+1] = byte(v >> 8)
		b[i+2] = byte(v >> 16)
		b[i+3] = byte(v >> 24)
		b[i+4] = byte(v >> 32)
		b[i+5] = byte(v >> 40)
		b[i+6] = byte(v >> 48)
		b[i+7] = byte(v >> 56)
	}
	if i < len(b) {
		v := r.Uint64()
		for ; i < len(b); i++ {
			b[i] = byte(v)
			v >>= 8
		}
	}
}

var streamCache struct {
	sync.Mutex
	key  string
	data []byte
}

// BuildStream materialises a stream for a run needing `required` bytes.
func BuildStream(sp StreamSpec, required int64) *Stream {
	st := buildStream(sp, required)
	st.eofData = sp.EOFData
	if L := int64(sp.DupLen); L > 0 && st.data != nil && sp.DupAt >= L && sp.DupAt+L <= int64(len(st.data)) {
		copy(st.data[sp.DupAt:sp.DupAt+L], st.data[sp.DupAt-L:sp.DupAt])
	}
	return st
}

func buildStream(sp StreamSpec, required int64) *Stream {
	switch sp.Kind {
	case "const":
		return &Stream{period: []byte{byte(sp.Byte)}}
	case "periodic":
		p, _ := hex.DecodeString(sp.Period)
		if len(p) == 0 {
			p = []byte{0}
		}
		return &Stream{period: p}
	case "literal":
		p, _ := hex.DecodeString(sp.Period)
		d := make([]byte, len(p)+sp.Tail)
		copy(d, p)
		fillPRF(d[len(p):], sp.TailSd^0x7a11)
		return &Stream{data: d}
	case "nibdup", "quad":
		// structured contents on which the poker verdict depends on m:
		// nibdup: every byte is a uniformly random nibble repeated (4-bit
		// patterns uniform, 8-bit patterns confined to 16 values); quad: every
		// nibble is one of 0011 0110 1100 1001 (2-bit patterns uniform, 4-bit
		// patterns confined to 4 values)
		d := make([]byte, required+int64(sp.Tail))
		r := simctl.NewRand(sp.Seed)
		q := []byte{0x3, 0x6, 0xc, 0x9}
		for i := range d {
			v := r.Uint64()
			if sp.Kind == "nibdup" {
				n := byte(v & 0xf)
				d[i] = n<<4 | n
			} else {
				d[i] = q[v&3]<<4 | q[(v>>2)&3]
			}
		}
		return &Stream{data: d}
	case "pokeredge":
		// the required bytes carry a pattern histogram whose poker P-value is the
		// closest one to alpha on the side given by Bias (1: just above or equal,
		// 0: just below) for the documented m of that length; the tail is PRF
		d := make([]byte, required+int64(sp.Tail))
		var e []byte
		if required >= 16 {
			e = pokerEdgeBytes(int(required), SingleM(int(required)*8), sp.Bias == 1, sp.Seed)
		}
		if e == nil {
			fillPRF(d[:required], sp.Seed)
		} else {
			copy(d, e)
		}
		fillPRF(d[required:], sp.TailSd^0x7a11)
		return &Stream{data: d}
	case "biased":
		d := make([]byte, required+int64(sp.Tail))
		r := simctl.NewRand(sp.Seed)
		for i := range d {
			var b byte
			v := r.Uint64()
			for k := 0; k < 8; k++ {
				b <<= 1
				if int(v&0xff) < sp.Bias {
					b |= 1
				}
				v >>= 8
			}
			d[i] = b
		}
		return &Stream{data: d}
	default: // prf
		d := make([]byte, required+int64(sp.Tail))
		// the required part depends on Seed only; the tail on TailSd, so that
		// two runs differing only in their tail share the judged bytes
		streamCache.Lock()
		key := string(appendU(appendU(nil, sp.Seed), uint64(required)))
		if streamCache.key == key && int64(len(streamCache.data)) == required {
			copy(d, streamCache.data)
		} else {
			fillPRF(d[:required], sp.Seed)
			streamCache.key = key
			streamCache.data = append([]byte(nil), d[:required]...)
		}
		streamCache.Unlock()
		fillPRF(d[required:], sp.TailSd^0x7a11)
		return &Stream{data: d}
	}
}

func appendU(b []byte, v uint64) []byte {
	for i := 0; i < 8; i++ {
		b = append(b, byte(v>>(8*uint(i))))
	}
	return b
}

// stir perturbs the real scheduler a little (race monitor only).
func stir(x uint64) {
	x = (x ^ 0x9E3779B97F4A7C15) * 0xBF58476D1CE4E5B9
	if x>>61 == 0 {
		for i := uint64(0); i < (x>>32)%4+1; i++ {
			runtime.Gosched()
		}
	}
}

// ReadRec is one Read as seen at the device.
type ReadRec struct {
	Task string `json:"task,omitempty"`
	Off  int64  `json:"off"`
	Req  int    `json:"req"`
	N    int    `json:"n"`
	Err  string `json:"err,omitempty"`
}

// SimSource is the simulated device + transport: the io.Reader handed to the
// workflow. It decides the size of every Read, injects the configured fault,
// counts what was requested and delivered, is safe for concurrent use, and is
// a scheduling point.
type SimSource struct {
	mu        sync.Mutex
	st        *Stream
	chunk     ChunkSpec
	fault     FaultSpec
	rng       *simctl.Rand
	readYield int
	sim       bool

	pos        int64
	Reads      int
	Delivered  int64
	Requested  int64
	FaultFired int
	ErrReturns int
	EOFReturns int
	inRead     int
	MaxInRead  int
	ShortReads int
	EOFWithData int
	EmptyReads int
	SlowReads  int
	idleDone   int
	lastEmpty  bool
	selfChecked bool
	toggle     bool
	stuck      bool
	Log        []ReadRec
	LogCap     int
	FirstErrAt int64
}

// NewSimSource builds the device for one run.
func NewSimSource(st *Stream, c *RunConfig, sim bool) *SimSource {
	return &SimSource{st: st, chunk: c.Chunk, fault: c.Fault, rng: simctl.NewRand(c.Chunk.Seed ^ 0xc4a1), readYield: c.ReadYield, sim: sim, LogCap: 64, FirstErrAt: -1}
}

// tempError is a failure that describes itself as temporary and as a timeout
// (what net.Error and some device drivers return). It is still an error: a
// workflow that got it did not get its bytes.
type tempError struct{}

func (tempError) Error() string   { return "simulated device: resource temporarily unavailable" }
func (tempError) Temporary() bool { return true }
func (tempError) Timeout() bool   { return true }

// errList is a custom error whose dynamic type is a slice (like
// go/scanner.ErrorList): it can be neither compared nor hashed.
type errList []string

func (e errList) Error() string { return "simulated device: " + strings.Join(e, "; ") }

// ErrWrappedEOF is a custom error that wraps io.EOF (errors.Is(err, io.EOF) holds, err == io.EOF does not).
var ErrWrappedEOF = fmt.Errorf("simulated device: stream closed by peer: %w", io.EOF)

func (s *SimSource) faultErr() error {
	switch s.fault.Kind {
	case "eof", "partialeof":
		return io.EOF
	case "ueof":
		return io.ErrUnexpectedEOF
	case "wrapeof":
		return ErrWrappedEOF
	case "temporary":
		return tempError{}
	case "listerr":
		return errList{"fifo underrun", "device reset"}
	default:
		return ErrDevice
	}
}

func (s *SimSource) size(req int) int {
	if req <= 1 {
		return req
	}
	switch s.chunk.Kind {
	case "fixed":
		if s.chunk.K < req && s.chunk.K > 0 {
			return s.chunk.K
		}
	case "devchunk":
		k := int64(s.chunk.K)
		if k > 0 {
			left := int(k - s.pos%k)
			if left < req {
				return left
			}
		}
	case "rand":
		return 1 + s.rng.Intn(req)
	case "geom":
		e := 0
		for (1 << uint(e+1)) <= req {
			e++
		}
		lim := 1 << uint(s.rng.Intn(e+1))
		n := 1 + s.rng.Intn(lim)
		if n > req {
			n = req
		}
		return n
	case "onethenrest":
		s.toggle = !s.toggle
		if s.toggle {
			return 1
		}
	}
	return req
}

// nestedDetect runs a detection from inside a device Read (set by exec.go).
var nestedDetect func(workflow string)

// slowBudget bounds the slow reads of one run (the bubble's clock is finite).
func (s *SimSource) slowBudget() bool {
	s.mu.Lock()
	defer s.mu.Unlock()
	return s.SlowReads < 60
}

// Read implements io.Reader.
func (s *SimSource) Read(p []byte) (int, error) {
	s.mu.Lock()
	s.Reads++
	yield := s.sim && s.readYield > 0 && s.Reads%s.readYield == 0
	if yield {
		s.inRead++
		if s.inRead > s.MaxInRead {
			s.MaxInRead = s.inRead
		}
	}
	s.mu.Unlock()
	if yield {
		simrt.Yield("device.read")
	}
	if s.sim && s.chunk.Delay > 0 && s.Reads%s.chunk.Delay == 0 && s.slowBudget() {
		// slow device: simulated time passes inside the Read
		time.Sleep(time.Duration(s.chunk.DelaySec) * time.Second)
		simrt.Yield("device.read.slow")
		s.mu.Lock()
		s.SlowReads++
		s.mu.Unlock()
	}
	if !s.sim {
		stir(uint64(s.Reads))
	}
	if s.sim && s.chunk.Reentrant != "" {
		s.mu.Lock()
		first := !s.selfChecked
		s.selfChecked = true
		s.mu.Unlock()
		if first && nestedDetect != nil {
			nestedDetect(s.chunk.Reentrant)
		}
	}
	s.mu.Lock()
	defer s.mu.Unlock()
	if yield {
		s.inRead--
	}
	n, err := s.serve(p)
	if len(s.Log) < s.LogCap {
		r := ReadRec{Off: s.pos - int64(n), Req: len(p), N: n}
		if err != nil {
			r.Err = err.Error()
		}
		s.Log = append(s.Log, r)
	}
	return n, err
}

func (s *SimSource) serve(p []byte) (int, error) {
	s.Requested += int64(len(p))
	if len(p) == 0 {
		return 0, nil
	}
	if s.stuck {
		s.ErrReturns++
		return 0, s.faultErr()
	}
	hasFault := s.fault.Kind != "" && s.fault.Kind != "none"
	burst := s.fault.Burst
	if burst < 1 {
		burst = 1
	}
	pending := hasFault && (s.FaultFired < burst)
	if pending && s.pos >= s.fault.At {
		s.FaultFired++
		s.ErrReturns++
		if s.FirstErrAt < 0 {
			s.FirstErrAt = s.pos
		}
		if s.fault.Sticky {
			s.stuck = true
		}
		return 0, s.faultErr()
	}
	if s.chunk.EmptyRun > 0 && s.Reads > s.chunk.EmptyAfter && s.idleDone < s.chunk.EmptyRun {
		s.idleDone++
		s.EmptyReads++
		return 0, nil
	}
	if s.chunk.Empty > 0 && s.Reads%s.chunk.Empty == 0 && !s.lastEmpty {
		s.lastEmpty = true
		s.EmptyReads++
		return 0, nil
	}
	s.lastEmpty = false
	n := s.size(len(p))
	if pending && s.pos+int64(n) >= s.fault.At {
		n = int(s.fault.At - s.pos)
		// A transient error handed over together with a read that fills the
		// whole request is dropped by io.ReadFull by contract and every byte
		// is then delivered: the property is silent there, so in that one
		// case the error is returned by the next Read instead.
		if (s.fault.Kind == "partial" || s.fault.Kind == "partialeof") && (s.fault.Sticky || n < len(p)) {
			// deliver the remaining bytes together with the error
			got := s.st.ReadAt(s.pos, p[:n])
			s.pos += int64(got)
			s.Delivered += int64(got)
			s.FaultFired++
			s.ErrReturns++
			if s.FirstErrAt < 0 {
				s.FirstErrAt = s.pos
			}
			if s.fault.Sticky {
				s.stuck = true
			}
			return got, s.faultErr()
		}
	}
	if l := s.st.Len(); l >= 0 && s.pos+int64(n) > l {
		n = int(l - s.pos)
	}
	if n <= 0 {
		s.EOFReturns++
		return 0, io.EOF
	}
	got := s.st.ReadAt(s.pos, p[:n])
	s.pos += int64(got)
	s.Delivered += int64(got)
	if got < len(p) {
		s.ShortReads++
	}
	if s.st.eofData && s.st.Len() >= 0 && s.pos == s.st.Len() {
		s.EOFWithData++
		return got, io.EOF
	}
	return got, nil
}
