package detectsim

import (
	"encoding/hex"
	"encoding/json"
	"fmt"
	"io"
	"log"
	"os"
	"os/exec"
	"path/filepath"
	"sort"
	"strings"
	"testing"
	"time"

	"github.com/Trisia/randomness/simrt/simctl"
)

// Job is what the check driver asks one engine process to do.
type Job struct {
	Prop      string  `json:"prop"`
	Tier      string  `json:"tier"`
	Seed      uint64  `json:"seed"`
	I         int     `json:"i"` // this process handles cases idx % N == I
	N         int     `json:"n"`
	Out       string  `json:"out"`
	ReplayDir string  `json:"replay_dir"`
	Replay    string  `json:"replay,omitempty"` // replay file to re-execute instead of a batch
	BudgetS   float64 `json:"budget_s"`         // stop starting new cases after this many seconds (0: none)
	RepoRev   string  `json:"repo_rev"`
	MaxCases  int     `json:"max_cases,omitempty"`
	DetCheck  int     `json:"det_check"` // re-execute every n-th case and compare trace hashes (0: never)
	Only      string  `json:"only,omitempty"`
	Mode      string  `json:"mode,omitempty"` // "" | sim | race
	Dump      bool    `json:"dump,omitempty"` // record one fingerprint line per case (determinism self-test)
}

// Found is a reported violation with its replay file.
type Found struct {
	Violation
	Workflow  string `json:"workflow"`
	Replay    string `json:"replay"`
	CaseIdx   int    `json:"case_idx"`
	Count     int    `json:"count"`
	Minimised bool   `json:"minimised"`
}

// BatchResult is what an engine process reports back.
type BatchResult struct {
	Prop          string            `json:"prop"`
	Cases         int               `json:"cases"`
	Planned       int               `json:"planned"`
	Executions    int               `json:"executions"`
	Steps         int64             `json:"steps"`
	Choices       int64             `json:"choices"`
	TraceKeys     []uint64          `json:"trace_keys"` // distinct (config,trace) fingerprints of non-trivial executions
	Faults        map[string]int    `json:"faults_fired"`
	Probes        map[string]int    `json:"probes"`
	Found         []Found           `json:"found"`
	Samples       []json.RawMessage `json:"samples"`
	WallS         float64           `json:"wall_s"`
	Truncated     bool              `json:"truncated"`
	DetChecked    int               `json:"det_checked"`
	DetMismatch   []string          `json:"det_mismatch,omitempty"`
	ReplayOutcome string            `json:"replay_outcome,omitempty"`
	MaxTasks      int               `json:"max_tasks"`
	Dump          []string          `json:"dump,omitempty"`
	Extra         map[string]int    `json:"extra,omitempty"`
}

// ReplayFile is the on-disk form of one failing execution.
type ReplayFile struct {
	Property  string      `json:"property"`
	Clause    string      `json:"clause"`
	Detail    string      `json:"detail"`
	Seed      uint64      `json:"seed"`
	CaseIdx   int         `json:"case_idx"`
	RepoRev   string      `json:"repo_rev"`
	Config    RunConfig   `json:"config"`
	TraceHash uint64      `json:"trace_hash"`
	Trace     interface{} `json:"trace,omitempty"`
	Original  *RunConfig  `json:"original_config,omitempty"`
	Note      string      `json:"note"`
}

var realStdout *os.File

func TestMain(m *testing.M) {
	realStdout = os.Stdout
	if dn, err := os.OpenFile(os.DevNull, os.O_WRONLY, 0); err == nil {
		os.Stdout = dn
	}
	log.SetOutput(io.Discard)
	os.Exit(m.Run())
}

type runner struct {
	t        *testing.T
	job      *Job
	res      *BatchResult
	keys     map[uint64]bool
	seqCache map[uint64]*Outcome
	seqOrder []uint64
	minSpent time.Duration
	lastMin  *RunConfig
}

func (r *runner) exec(c *RunConfig) *Outcome {
	var o *Outcome
	if r.job.Mode == "race" {
		o = ExecutePlain(c, 5*time.Minute)
	} else {
		o = Execute(r.t, c)
	}
	r.res.Executions++
	r.res.Steps += int64(o.Sim.Steps)
	r.res.Choices += int64(o.Sim.Choices)
	if o.Sim.Tasks > r.res.MaxTasks {
		r.res.MaxTasks = o.Sim.Tasks
	}
	return o
}

func (r *runner) note(o *Outcome) {
	c := o.Cfg
	nontrivial := o.Sim.Choices > 0 || o.Src.FaultFired > 0 || o.Src.ShortReads > 0
	if c.Prop == "C07" || c.Prop == "C11" || c.Prop == "C14" {
		nontrivial = true // input-driven properties: distinct by configuration
	}
	if nontrivial {
		r.keys[c.Key()^o.Sim.TraceHash] = true
	}
	if o.Src.FaultFired > 0 {
		k := c.Fault.Kind
		if c.Fault.Sticky {
			k += "/sticky"
		} else {
			k += "/transient"
		}
		r.res.Faults[k] += o.Src.FaultFired
		wi := Info(c.Workflow)
		if wi.SampleBytes > 0 {
			B := int64(wi.SampleBytes)
			switch {
			case c.Fault.At < B:
				r.res.Probes["fault-in-first-sample"]++
			case c.Fault.At >= B*int64(wi.Samples-1):
				r.res.Probes["fault-in-last-sample"]++
			default:
				r.res.Probes["fault-in-middle-sample"]++
			}
			if c.Fault.At%B == 0 {
				r.res.Probes["fault-on-sample-boundary"]++
			}
		}
	}
	if o.Src.ShortReads > 0 {
		r.res.Faults["short-read"] += o.Src.ShortReads
	}
	if o.Src.MaxInRead >= 2 {
		r.res.Probes["two-tasks-inside-read"]++
	}
	if o.Sim.Hang {
		r.res.Probes["hang-observed"]++
	}
	if o.Sim.Abandoned {
		r.res.Probes["run-abandoned-as-too-slow-inconclusive"]++
	}
	if len(o.Sim.Panics) > 0 {
		r.res.Probes["panic-observed"]++
	}
	if o.Returned && !o.Verdict {
		r.res.Probes["verdict-false"]++
	}
	if o.Returned && o.Verdict {
		r.res.Probes["verdict-true"]++
	}
	if c.Stream.Kind == "const" || c.Stream.Kind == "periodic" {
		r.res.Faults["device-"+c.Stream.Kind]++
	}
	if len(c.Prelude) > 0 {
		r.res.Probes["run-with-earlier-call"]++
		if c.Prelude[0].SameSource && c.Carrier == "" {
			r.res.Probes["earlier-call-on-the-same-source-object"]++
		}
		if k := c.Prelude[0].Fault.Kind; k != "" && k != "none" {
			r.res.Probes["earlier-call-cut-short-by-a-failing-source"]++
		}
	}
	if c.Stdio != "" {
		r.res.Probes["standard-output-unwritable"]++
	}
	if len(c.Companion) > 0 {
		r.res.Probes["another-detection-running-at-the-same-time"]++
	}
	if c.Carrier != "" {
		r.res.Probes["carrier-"+c.Carrier]++
		if c.CarrierOffset > 0 {
			r.res.Probes["carrier-positioned-behind-a-header"]++
		}
	}
	if c.Chunk.Delay > 0 || c.Runners.SlowEvery > 0 {
		r.res.Faults["slow-read-or-slow-test"]++
		r.res.Extra["simulated_hours_passed_while_tasks_slept"] += int(o.Sim.FakeSlept / time.Hour)
	}
	if c.Chunk.Empty > 0 {
		r.res.Faults["empty-read"] += o.Src.Reads / (2 * c.Chunk.Empty)
	}
	if len(c.Prelude) > 10 {
		r.res.Probes["run-after-many-failing-runs"]++
	}
	if o.Src.EOFWithData > 0 {
		r.res.Probes["eof-delivered-with-the-last-bytes"]++
	}
	r.res.Probes["policy-"+c.Policy.Kind]++
	if c.Workers > 0 && Info(c.Workflow).Fast {
		r.res.Probes[fmt.Sprintf("workers-%d", c.Workers)]++
	}
}

func seqTwin(c *RunConfig) *RunConfig {
	d := *c
	d.Workflow = Info(c.Workflow).Sequential
	d.Workers = 1
	d.Policy = simctl.Policy{Kind: "first"}
	d.Picks = nil
	d.Chunk = ChunkSpec{Kind: "full"}
	d.ReadYield = 1
	return &d
}

func (r *runner) cachedExec(c *RunConfig) *Outcome {
	k := c.Key()
	if o, ok := r.seqCache[k]; ok {
		return o
	}
	o := r.exec(c)
	r.seqCache[k] = o
	r.seqOrder = append(r.seqOrder, k)
	if len(r.seqOrder) > 4 {
		delete(r.seqCache, r.seqOrder[0])
		r.seqOrder = r.seqOrder[1:]
	}
	return o
}

// FreshResult is what a fresh child process reports back for one case.
type FreshResult struct {
	Vs            []Violation   `json:"vs"`
	Returned      bool          `json:"returned"`
	Verdict       bool          `json:"verdict"`
	Err           string        `json:"err"`
	ErrNil        bool          `json:"err_nil"`
	NamedItem     int           `json:"named_item"`
	Sim           simctl.Result `json:"sim"`
	Src           SrcStats      `json:"src"`
	CallsAtReturn int           `json:"calls_at_return"`
	Executions    int           `json:"executions"`
}

var inFreshChild = os.Getenv("VERIF_FRESH_CFG") != ""

// evaluateFresh runs the whole evaluation of one case in a fresh process.
func (r *runner) evaluateFresh(c *RunConfig) ([]Violation, *Outcome) {
	dir, err := os.MkdirTemp(".", "fresh-")
	if err != nil {
		r.t.Fatal(err)
	}
	defer os.RemoveAll(dir)
	if abs, aerr := filepath.Abs(dir); aerr == nil {
		dir = abs
	}
	cfgp := filepath.Join(dir, "cfg.json")
	outp := filepath.Join(dir, "out.json")
	b, _ := json.Marshal(c)
	if err := os.WriteFile(cfgp, b, 0644); err != nil {
		r.t.Fatal(err)
	}
	cmd := exec.Command(os.Args[0], "-test.run", "TestFreshChild", "-test.timeout", "30m")
	cmd.Env = append(os.Environ(), "VERIF_FRESH_CFG="+cfgp, "VERIF_FRESH_OUT="+outp, "VERIF_JOB=")
	cmd.Dir = dir
	ob, err := cmd.CombinedOutput()
	rb, rerr := os.ReadFile(outp)
	var fr FreshResult
	if rerr != nil || json.Unmarshal(rb, &fr) != nil {
		// the child died: a panic in a goroutine the simulator does not own, a
		// fatal runtime error. That is a finding about the code under test.
		msg := string(ob)
		if i := strings.Index(msg, "panic:"); i >= 0 {
			msg = msg[i:]
		} else if i := strings.Index(msg, "fatal error:"); i >= 0 {
			msg = msg[i:]
		}
		if len(msg) > 1200 {
			msg = msg[:1200]
		}
		if strings.Contains(string(ob), "SIMCTL WATCHDOG") || err == nil {
			r.t.Fatalf("fresh child gave no result: %v\n%s", err, msg)
		}
		o := &Outcome{Cfg: c, NamedItem: -1, CallsAtReturn: -1}
		return []Violation{v(c.Prop, "process-crash", "a fresh process running this case died: %v: %s", err, msg)}, o
	}
	r.res.Executions += fr.Executions
	r.res.Steps += int64(fr.Sim.Steps)
	r.res.Choices += int64(fr.Sim.Choices)
	o := &Outcome{Cfg: c, Returned: fr.Returned, Verdict: fr.Verdict, Err: fr.Err, ErrNil: fr.ErrNil, NamedItem: fr.NamedItem, Sim: fr.Sim, Src: fr.Src, CallsAtReturn: fr.CallsAtReturn}
	r.res.Probes["case-run-in-a-fresh-process"]++
	return fr.Vs, o
}

// TestFreshChild is the body of a fresh child process: one case, nothing else.
func TestFreshChild(t *testing.T) {
	cfgp := os.Getenv("VERIF_FRESH_CFG")
	if cfgp == "" {
		t.Skip("not a fresh child")
	}
	b, err := os.ReadFile(cfgp)
	if err != nil {
		t.Fatal(err)
	}
	var c RunConfig
	if err := json.Unmarshal(b, &c); err != nil {
		t.Fatal(err)
	}
	res := &BatchResult{Prop: c.Prop, Faults: map[string]int{}, Probes: map[string]int{}, Extra: map[string]int{}}
	r := &runner{t: t, job: &Job{Prop: c.Prop}, res: res, keys: map[uint64]bool{}, seqCache: map[uint64]*Outcome{}}
	vs, o := r.evaluate(&c)
	fr := FreshResult{Vs: vs, Returned: o.Returned, Verdict: o.Verdict, Err: o.Err, ErrNil: o.ErrNil, NamedItem: o.NamedItem, Sim: o.Sim, Src: o.Src, CallsAtReturn: o.CallsAtReturn, Executions: res.Executions}
	fr.Src.Log = nil
	ob, _ := json.Marshal(fr)
	if err := os.WriteFile(os.Getenv("VERIF_FRESH_OUT"), ob, 0644); err != nil {
		t.Fatal(err)
	}
}

// evaluate executes one case (and its comparison run where the property needs
// one) and returns the violations plus the primary outcome. In a fresh child
// the observed run goes first, the comparison run after it.
func (r *runner) evaluate(c *RunConfig) ([]Violation, *Outcome) {
	if c.Fresh && !inFreshChild && r.job.Mode != "race" {
		return r.evaluateFresh(c)
	}
	switch c.Prop {
	case "C07":
		o := r.exec(c)
		var twin *Outcome
		if c.Stream.Kind == "prf" && c.Runners.Mode != "real" {
			d := *c
			d.Stream.Tail = c.Stream.Tail + 1 + int(c.Stream.TailSd%977)
			d.Stream.TailSd = c.Stream.TailSd*31 + 7
			twin = r.exec(&d)
		}
		return OracleC07(o, twin), o
	case "C08":
		var seq, o *Outcome
		if r.job.Mode == "race" && c.Runners.Mode == "real" && c.Workflow != WPeriodFast {
			// 10^6-bit samples under the race detector: the sequential twin would
			// take minutes; the run is there for the detector's reports
			o = r.exec(c)
			return checkLive("C08", o), o
		}
		if inFreshChild {
			o = r.exec(c)
			seq = r.cachedExec(seqTwin(c))
		} else {
			seq = r.cachedExec(seqTwin(c))
			o = r.exec(c)
		}
		if o.Sim.MainStep > 0 && len(o.Sim.Leaked) == 0 {
			r.res.Probes["fast-completed-clean"]++
		}
		return OracleC08(seq, o), o
	case "C09":
		o := r.exec(c)
		return OracleC09(o), o
	case "C10":
		// the reference: the simulated device, full-buffer reads, EOF on a
		// Read of its own
		d := *c
		d.Chunk = ChunkSpec{Kind: "full"}
		d.ReadYield = 1
		d.Carrier, d.CarrierOffset = "", 0
		d.Stream.EOFData = false
		var full, o *Outcome
		if inFreshChild {
			o = r.exec(c)
			full = r.cachedExec(&d)
		} else {
			full = r.cachedExec(&d)
			o = r.exec(c)
		}
		return OracleC10(full, o), o
	case "C11":
		o := r.exec(c)
		if c.NumByte >= 16 && o.Stream != nil {
			data := o.Stream.Slice(0, c.NumByte)
			m := SingleM(c.NumByte * 8)
			want := PokerModel(data, m) >= alpha
			for _, mm := range []int{2, 4, 8} {
				if mm != m && (PokerModel(data, mm) >= alpha) != want {
					r.res.Probes["poker-verdict-depends-on-m"]++
					break
				}
			}
		}
		return OracleC11(o), o
	case "C14":
		o := r.exec(c)
		return OracleC14(o), o
	}
	r.t.Fatalf("unknown property %s", c.Prop)
	return nil, nil
}

func hasClause(vs []Violation, clause string) (Violation, bool) {
	for _, x := range vs {
		if x.Clause == clause {
			return x, true
		}
	}
	return Violation{}, false
}

// minimise shrinks a failing configuration while the same oracle clause fails.
func (r *runner) minimise(c RunConfig, picks []int, clause string) (RunConfig, bool) {
	// bounded: per class at most 60 evaluations / 8 s, per process at most 40 s
	// in total; past the budget the original configuration with its recorded
	// picks is reported as it is
	if r.minSpent > 40*time.Second {
		return c, false
	}
	t0 := time.Now()
	evals := 0
	defer func() {
		r.minSpent += time.Since(t0)
		if os.Getenv("VERIF_DEBUG") != "" {
			fmt.Fprintf(os.Stderr, "minimise %s %s: %d evals %.1fs\n", clause, c.String(), evals, time.Since(t0).Seconds())
		}
	}()
	deadline := t0.Add(8 * time.Second)
	fails := func(x *RunConfig) bool {
		if evals > 60 || time.Now().After(deadline) {
			return false
		}
		evals++
		vs, _ := r.evaluate(x)
		_, ok := hasClause(vs, clause)
		return ok
	}
	cur := c
	cur.Policy = cur.Policy.Recorded()
	cur.Picks = append([]int(nil), picks...)
	if !fails(&cur) {
		// the recorded schedule must reproduce the failure; if not, keep the original
		return c, false
	}
	try := func(mut func(x *RunConfig)) {
		x := cur
		x.Picks = append([]int(nil), cur.Picks...)
		x.Runners.Dir = append([]ItemDirective(nil), cur.Runners.Dir...)
		mut(&x)
		if fails(&x) {
			cur = x
		}
	}
	try(func(x *RunConfig) { x.Picks = nil })
	if len(cur.Prelude) > 0 {
		try(func(x *RunConfig) { x.Prelude = nil })
	}
	try(func(x *RunConfig) { x.Chunk = ChunkSpec{Kind: "full"} })
	if cur.Chunk.Kind == "full" {
		// (with short reads every Read would become a scheduling point: far too many steps)
		try(func(x *RunConfig) { x.ReadYield = 1 })
	}
	try(func(x *RunConfig) { x.Fault.Sticky = true })
	if cur.Fault.Kind != "none" && cur.Fault.Kind != "eof" {
		try(func(x *RunConfig) { x.Fault.Kind = "eof" })
	}
	if cur.Fault.Kind != "none" {
		try(func(x *RunConfig) { x.Fault.At = 0 })
	}
	for _, w := range []int{1, 2} {
		if cur.Workers > w {
			ww := w
			try(func(x *RunConfig) { x.Workers = ww })
		}
	}
	try(func(x *RunConfig) { x.Stream.Tail = 0 })
	try(func(x *RunConfig) { x.Runners.Random = 0 })
	for i := len(cur.Runners.Dir) - 1; i >= 0; i-- {
		ii := i
		try(func(x *RunConfig) {
			if ii < len(x.Runners.Dir) {
				x.Runners.Dir = append(x.Runners.Dir[:ii], x.Runners.Dir[ii+1:]...)
			}
		})
	}
	// schedule: zero the tail, by halves
	for n := len(cur.Picks); n > 0 && len(cur.Picks) > 0; {
		keep := len(cur.Picks) - n
		if keep < 0 {
			keep = 0
		}
		x := cur
		x.Picks = append([]int(nil), cur.Picks[:keep]...)
		if fails(&x) {
			cur = x
			n = len(cur.Picks)
			if n == 0 {
				break
			}
			continue
		}
		n /= 2
	}
	// then individual picks
	for i := 0; i < len(cur.Picks) && evals < 60; i++ {
		if cur.Picks[i] == 0 {
			continue
		}
		x := cur
		x.Picks = append([]int(nil), cur.Picks...)
		x.Picks[i] = 0
		if fails(&x) {
			cur = x
		}
	}
	return cur, true
}

func (r *runner) report(c *RunConfig, idx int, viol Violation, o *Outcome) {
	for i := range r.res.Found {
		f := &r.res.Found[i]
		if f.Clause == viol.Clause && f.Workflow == c.Workflow {
			f.Count++
			return
		}
	}
	if r.job.Mode == "race" {
		rf := ReplayFile{Property: c.Prop, Clause: viol.Clause, Detail: viol.Detail, Seed: r.job.Seed, CaseIdx: idx, RepoRev: r.job.RepoRev, Config: *c,
			Note: "observed by the race monitor (real goroutines, schedule not controlled); not replayable bit-for-bit"}
		name := fmt.Sprintf("%s-%d-%d-racemon-%s.json", c.Prop, r.job.Seed, idx, sanitize(viol.Clause+"-"+c.Workflow))
		path := filepath.Join(r.job.ReplayDir, name)
		b, _ := json.MarshalIndent(rf, "", " ")
		os.MkdirAll(r.job.ReplayDir, 0755)
		os.WriteFile(path, b, 0644)
		r.res.Found = append(r.res.Found, Found{Violation: viol, Workflow: c.Workflow, Replay: path, CaseIdx: idx, Count: 1})
		return
	}
	var min RunConfig
	ok := false
	if r.lastMin != nil {
		// another clause of the same case was already minimised: reuse that
		// configuration if it shows this clause too
		if vs0, _ := r.evaluate(r.lastMin); func() bool { _, h := hasClause(vs0, viol.Clause); return h }() {
			min, ok = *r.lastMin, true
		}
	}
	if !ok {
		min, ok = r.minimise(*c, o.Sim.Picks, viol.Clause)
		if ok {
			m2 := min
			r.lastMin = &m2
		}
	}
	final := min
	vs, fo := r.evaluate(&final)
	fv, still := hasClause(vs, viol.Clause)
	if !still {
		// fall back to the original configuration with its recorded picks
		final = *c
		final.Policy = final.Policy.Recorded()
		final.Picks = append([]int(nil), o.Sim.Picks...)
		vs, fo = r.evaluate(&final)
		fv, still = hasClause(vs, viol.Clause)
		ok = false
		if !still {
			fv = viol
			final = *c
			fo = o
		}
	}
	rf := ReplayFile{Property: c.Prop, Clause: fv.Clause, Detail: fv.Detail, Seed: r.job.Seed, CaseIdx: idx, RepoRev: r.job.RepoRev,
		Config: final, TraceHash: fo.Sim.TraceHash, Trace: fo.Sim.Trace, Original: c,
		Note: "replay: ./check " + c.Prop + " --replay <this file>; the run is a pure function of config (with picks) and the code under /repo"}
	name := fmt.Sprintf("%s-%d-%d-%s.json", c.Prop, r.job.Seed, idx, sanitize(viol.Clause+"-"+c.Workflow))
	path := filepath.Join(r.job.ReplayDir, name)
	b, _ := json.MarshalIndent(rf, "", " ")
	os.MkdirAll(r.job.ReplayDir, 0755)
	os.WriteFile(path, b, 0644)
	r.res.Found = append(r.res.Found, Found{Violation: fv, Workflow: c.Workflow, Replay: path, CaseIdx: idx, Count: 1, Minimised: ok})
}

func sanitize(s string) string {
	b := []byte(s)
	for i, c := range b {
		if !(c >= 'a' && c <= 'z' || c >= 'A' && c <= 'Z' || c >= '0' && c <= '9' || c == '-') {
			b[i] = '_'
		}
	}
	return string(b)
}

func TestBatch(t *testing.T) {
	jp := os.Getenv("VERIF_JOB")
	if jp == "" {
		t.Skip("VERIF_JOB not set")
	}
	jb, err := os.ReadFile(jp)
	if err != nil {
		t.Fatal(err)
	}
	var job Job
	if err := json.Unmarshal(jb, &job); err != nil {
		t.Fatal(err)
	}
	res := &BatchResult{Prop: job.Prop, Faults: map[string]int{}, Probes: map[string]int{}, Extra: map[string]int{}}
	r := &runner{t: t, job: &job, res: res, keys: map[uint64]bool{}, seqCache: map[uint64]*Outcome{}}
	start := time.Now()
	if job.Replay != "" {
		r.replay(job.Replay)
	} else {
		plan := Plan(job.Prop, job.Tier, job.Seed)
		res.Planned = len(plan)
		mine := 0
		if job.Mode == "race" && job.Prop == "C08" {
			// the race monitor's own cases: the real test functions on real
			// threads (what a serialising scheduler cannot reach: accesses with
			// no synchronisation at all between them). Every process runs the
			// periodic workflow; the one with most CPUs also a 10^6-bit one.
			pr := simctl.NewRand(simctl.Mix(job.Seed, 0xace0+uint64(job.I)))
			ws := []string{WPeriodFast, WPeriodFast, WPeriodFast}
			if job.I == job.N-1 {
				ws = append([]string{WPeriodFast, WPowerOnFast}, ws...)
				if job.Tier != "quick" {
					ws = append(ws, WFactoryFast, WPowerOnFast)
				}
			}
			for k, w := range ws {
				c := RunConfig{Prop: job.Prop, Workflow: w, Workers: 0, Policy: genPolicy(pr, 100),
					Stream: prfStream(pr), Chunk: ChunkSpec{Kind: "full"}, Fault: FaultSpec{Kind: "none"}, Runners: RunnerSpec{Mode: "real", Lockstep: k%2 == 1 || w != WPeriodFast}, ReadYield: 1, Note: "race-monitor-real-runners"}
				vs, o := r.evaluate(&c)
				res.Cases++
				res.Probes["race-monitor-real-runner-run:"+w]++
				r.note(o)
				for _, viol := range vs {
					r.report(&c, -1-k, viol, o)
				}
			}
		}
		// deal groups of adjacent cases (cases sharing a comparison run) to the
		// N processes in a seeded shuffled order
		G := GroupSize(job.Prop, job.Tier)
		ng := (len(plan) + G - 1) / G
		owner := make([]int, ng)
		{
			perm := make([]int, ng)
			for i := range perm {
				perm[i] = i
			}
			pr := simctl.NewRand(simctl.Mix(job.Seed, 0x5eed))
			for i := ng - 1; i > 0; i-- {
				j := pr.Intn(i + 1)
				perm[i], perm[j] = perm[j], perm[i]
			}
			for pos, g := range perm {
				owner[g] = pos % job.N
			}
		}
		if job.Mode == "race" && job.Prop == "C14" {
			// the monitor's cases for this property: the Fast workflows with the
			// real tests on real threads, on stuck and short-cycle sources - there
			// nearly every item of every sample fails, so whatever the workers do
			// on their failure branch they all do at once. Nothing else of the
			// plan is repeated here.
			pr := simctl.NewRand(simctl.Mix(job.Seed, 0xc140+uint64(job.I)))
			sts := []StreamSpec{{Kind: "const", Byte: 0x00}, {Kind: "const", Byte: 0xff}, {Kind: "const", Byte: []int{0x55, 0x01, 0xaa, 0x80}[pr.Intn(4)]},
				{Kind: "periodic", Period: hex.EncodeToString([]byte{byte(pr.Intn(256)), byte(pr.Intn(256)), byte(pr.Intn(256)), 0, 0, 0, 0})}}
			for k, st := range sts {
				c := RunConfig{Prop: job.Prop, Workflow: WPeriodFast, Workers: 0, Policy: genPolicy(pr, 100),
					Stream: st, Chunk: ChunkSpec{Kind: "full"}, Fault: FaultSpec{Kind: "none"}, Runners: RunnerSpec{Mode: "real", Lockstep: k%2 == 1}, ReadYield: 1, Note: "race-monitor-real-runners"}
				vs, o := r.evaluate(&c)
				res.Cases++
				res.Probes["race-monitor-real-runner-run:"+c.Workflow]++
				r.note(o)
				for _, viol := range vs {
					r.report(&c, -1-k, viol, o)
				}
			}
			plan = nil
		}
		for idx := range plan {
			if owner[idx/G] != job.I {
				continue
			}
			mine++
			if job.MaxCases > 0 && mine > job.MaxCases {
				break
			}
			if job.BudgetS > 0 && time.Since(start).Seconds() > job.BudgetS {
				res.Truncated = true
				break
			}
			c := plan[idx]
			if job.Only != "" && c.Workflow != job.Only {
				continue
			}
			tc := time.Now()
			vs, o := r.evaluate(&c)
			res.Cases++
			if os.Getenv("VERIF_DEBUG") != "" && time.Since(tc) > 2*time.Second {
				fmt.Fprintf(os.Stderr, "slow case %d %s read_yield=%d: %.1fs steps=%d\n", idx, c.String(), c.ReadYield, time.Since(tc).Seconds(), o.Sim.Steps)
			}
			r.note(o)
			if job.Dump {
				res.Dump = append(res.Dump, fmt.Sprintf("%d %x %v %q steps=%d picks=%d", idx, o.Sim.TraceHash, o.Verdict, o.Err, o.Sim.Steps, len(o.Sim.Picks)))
			}
			if job.DetCheck > 0 && mine%job.DetCheck == 0 && job.Mode != "race" {
				o2 := Execute(t, &c)
				res.DetChecked++
				if o2.Sim.TraceHash != o.Sim.TraceHash || o2.Verdict != o.Verdict || o2.Err != o.Err {
					res.DetMismatch = append(res.DetMismatch, fmt.Sprintf("case %d (%s): trace %x vs %x", idx, c.String(), o.Sim.TraceHash, o2.Sim.TraceHash))
				}
			}
			if len(res.Samples) < 3 && (len(vs) == 0) && mine%7 == 1 {
				s := map[string]interface{}{"config": c, "returned": o.Returned, "verdict": o.Verdict, "err": o.Err,
					"steps": o.Sim.Steps, "choices": o.Sim.Choices, "tasks": o.Sim.Tasks, "device": map[string]interface{}{"reads": o.Src.Reads, "delivered": o.Src.Delivered, "fault_fired": o.Src.FaultFired, "short_reads": o.Src.ShortReads}}
				if len(o.Sim.Trace) > 12 {
					s["trace_head"] = o.Sim.Trace[:12]
				} else {
					s["trace_head"] = o.Sim.Trace
				}
				b, _ := json.Marshal(s)
				res.Samples = append(res.Samples, b)
			}
			seen := map[string]bool{}
			r.lastMin = nil
			for _, x := range vs {
				if seen[x.Clause] {
					continue
				}
				seen[x.Clause] = true
				r.report(&c, idx, x, o)
			}
		}
	}
	for k := range r.keys {
		res.TraceKeys = append(res.TraceKeys, k)
	}
	sort.Slice(res.TraceKeys, func(i, j int) bool { return res.TraceKeys[i] < res.TraceKeys[j] })
	res.WallS = time.Since(start).Seconds()
	b, _ := json.Marshal(res)
	if err := os.WriteFile(job.Out, b, 0644); err != nil {
		t.Fatal(err)
	}
}

func (r *runner) replay(path string) {
	b, err := os.ReadFile(path)
	if err != nil {
		r.t.Fatal(err)
	}
	var rf ReplayFile
	if err := json.Unmarshal(b, &rf); err != nil {
		r.t.Fatal(err)
	}
	c := rf.Config
	vs, o := r.evaluate(&c)
	r.res.Cases = 1
	r.note(o)
	if fv, ok := hasClause(vs, rf.Clause); ok {
		st := "reproduced"
		if o.Sim.TraceHash != rf.TraceHash {
			st = "reproduced-with-different-trace"
		}
		r.res.ReplayOutcome = st
		r.res.Found = append(r.res.Found, Found{Violation: fv, Workflow: c.Workflow, Replay: path, CaseIdx: rf.CaseIdx, Count: 1})
	} else {
		r.res.ReplayOutcome = "not-reproduced"
		for _, x := range vs {
			r.res.Found = append(r.res.Found, Found{Violation: x, Workflow: c.Workflow, Replay: path, CaseIdx: rf.CaseIdx, Count: 1})
		}
	}
}
