package detectsim

import (
	"math"
)

// Reference models (DESIGN.md §3.4). Everything here is written from the
// property statements and the GM/T 0005-2021 formulas, independently of the
// repository's utils.go / detect.go.

const (
	alpha  = 0.01
	alphaT = 0.0001
)

// ThresholdModel is ceil(s(1 - a - 3 sqrt(a(1-a)/s))).
func ThresholdModel(s int) int {
	fs := float64(s)
	r := fs * (1 - alpha - 3*math.Sqrt(alpha*(1-alpha)/fs))
	return int(math.Ceil(r - 1e-12))
}

// GammaQ is the regularized upper incomplete gamma function Q(a, x) for a an
// integer or half-integer >= 1/2, by the finite closed forms
//
//	Q(n, x)     = e^-x sum_{k<n} x^k / k!
//	Q(n+1/2, x) = erfc(sqrt x) + e^-x sum_{k<n} x^(k+1/2) / Gamma(k+3/2)
//
// with every term evaluated in log space.
func GammaQ(a, x float64) float64 {
	if x <= 0 {
		return 1
	}
	twoA := int(math.Round(2 * a))
	if math.Abs(2*a-float64(twoA)) > 1e-9 || twoA < 1 {
		panic("GammaQ: shape must be a positive integer or half-integer")
	}
	lx := math.Log(x)
	sum := 0.0
	if twoA%2 == 0 {
		n := twoA / 2
		for k := 0; k < n; k++ {
			lg, _ := math.Lgamma(float64(k) + 1)
			sum += math.Exp(-x + float64(k)*lx - lg)
		}
	} else {
		n := (twoA - 1) / 2
		sum = math.Erfc(math.Sqrt(x))
		for k := 0; k < n; k++ {
			lg, _ := math.Lgamma(float64(k) + 1.5)
			sum += math.Exp(-x + (float64(k)+0.5)*lx - lg)
		}
	}
	if sum > 1 {
		sum = 1
	}
	return sum
}

// BinOf returns the index of the interval [0,.1), [.1,.2), ..., [.9,1] holding q.
func BinOf(q float64) int {
	for i := 1; i <= 9; i++ {
		if q < float64(i)/10 {
			return i - 1
		}
	}
	return 9
}

// UniformityModel is P_T = Q(9/2, V/2), V the chi-square of the ten bin counts
// against s/10.
func UniformityModel(qs []float64) float64 {
	var c [10]int
	for _, q := range qs {
		c[BinOf(q)]++
	}
	return UniformityOfBins(c[:], len(qs))
}

// UniformityOfBins is UniformityModel on a histogram.
func UniformityOfBins(c []int, s int) float64 {
	e := float64(s) / 10
	v := 0.0
	for i := 0; i < 10; i++ {
		d := float64(c[i]) - e
		v += d * d / e
	}
	return GammaQ(4.5, v/2)
}

// Cell is one per-sample, per-item result.
type Cell struct {
	P, Q, P2, Q2 float64
	Pass         bool
}

// Decision is the model's verdict.
type Decision struct {
	Verdict    bool
	Violators  map[int]string // item -> reason
	Borderline bool           // some item's P_T is within 1e-12 of 1e-4: either verdict accepted
	PassCounts []int
	PT         []float64
}

// DecisionModel applies the GM/T decision rule to an s x items matrix.
func DecisionModel(m [][]Cell, s, items int) Decision {
	d := Decision{Verdict: true, Violators: map[int]string{}}
	th := ThresholdModel(s)
	for it := 0; it < items; it++ {
		pc := 0
		qs := make([]float64, 0, s)
		for k := 0; k < s; k++ {
			if m[k][it].Pass {
				pc++
			}
			qs = append(qs, m[k][it].Q)
		}
		pt := UniformityModel(qs)
		d.PassCounts = append(d.PassCounts, pc)
		d.PT = append(d.PT, pt)
		if pc < th {
			d.Verdict = false
			d.Violators[it] = "pass count below threshold"
		}
		if math.Abs(pt-alphaT) < 1e-12 {
			d.Borderline = true
			continue
		}
		if pt < alphaT {
			d.Verdict = false
			if _, ok := d.Violators[it]; !ok {
				d.Violators[it] = "uniformity below 0.0001"
			}
		}
	}
	return d
}

// PokerModel returns the poker test P-value of data for pattern length m:
// non-overlapping m-bit patterns taken most-significant-bit first, trailing
// partial pattern discarded, V = (2^m/N) sum n_i^2 - N, P = Q((2^m-1)/2, V/2).
func PokerModel(data []byte, m int) float64 {
	n := len(data) * 8
	N := n / m
	cnt := make([]int, 1<<uint(m))
	bit := func(i int) int { return int(data[i/8]>>(7-uint(i%8))) & 1 }
	for b := 0; b < N; b++ {
		v := 0
		for j := 0; j < m; j++ {
			v = v<<1 | bit(b*m+j)
		}
		cnt[v]++
	}
	sum := 0.0
	for _, c := range cnt {
		sum += float64(c) * float64(c)
	}
	V := float64(int(1)<<uint(m))/float64(N)*sum - float64(N)
	return GammaQ(float64((int(1)<<uint(m))-1)/2, V/2)
}

// SingleM is the documented pattern length of the single-shot detection.
func SingleM(nbits int) int {
	switch {
	case nbits < 320:
		return 2
	case nbits < 10240:
		return 4
	default:
		return 8
	}
}
