package detectsim

import (
	"bytes"
	"runtime"
	"sync"
	"time"

	"github.com/Trisia/randomness"
	"github.com/Trisia/randomness/simrt"
	"github.com/Trisia/randomness/simrt/simctl"
)

// twoSided[i]: item i's statistic is normal (P = 2 min(Q, 1-Q)); otherwise
// chi-square-like (Q = P). Order = GM/T 0005-2021 numbering.
var twoSided = [15]bool{0: true, 4: true, 7: true, 8: true, 13: true, 14: true}

// ItemNames are the registry names at process start (error messages use them).
var ItemNames []string

var origRunners []randomness.TestFunc

// Call is one runner invocation as recorded by the registry wrapper.
type Call struct {
	Item   int `json:"item"`
	Sample int `json:"sample"` // index of the stream sample handed over, -1: foreign buffer, -2: not tracked
	Len    int `json:"len"`
	Diff   int `json:"diff,omitempty"` // first differing offset for a foreign buffer
}

// RunState is the per-run state behind the registry wrappers.
type RunState struct {
	mu         sync.Mutex
	cfg        *RunConfig
	sim        bool
	stream     *Stream
	wi         WorkflowInfo
	index      map[string]int // first 16 bytes of sample k -> k
	matrix     [][]Cell       // scripted results [sample][item]
	Calls      []Call
	Observed   map[int]map[int]Cell // sample -> item -> result actually returned to the workflow
	track      bool
	memo       map[string]*randomness.TestResult
	prelude    bool
	companions []string
	nested     []string
	ncalls     int
	dups       map[int][]int // first sample with some content -> all samples with that content
	ls         map[int]*lsGate
	lsOff      bool
}

type lsGate struct {
	n    int
	open bool
	ch   chan struct{}
}

// lockstep holds a runner call of the first batch until every worker of the
// batch has arrived at the same item (real goroutines only; gives up after
// 20 s of real time and stays off for the rest of the run).
func (st *RunState) lockstep(item int) {
	need := runtime.NumCPU()
	if need > st.wi.Samples {
		need = st.wi.Samples
	}
	st.mu.Lock()
	if st.lsOff || need < 2 || !st.wi.Fast {
		st.mu.Unlock()
		return
	}
	if st.ls == nil {
		st.ls = map[int]*lsGate{}
	}
	g := st.ls[item]
	if g == nil {
		g = &lsGate{ch: make(chan struct{})}
		st.ls[item] = g
	}
	if g.open {
		st.mu.Unlock()
		return
	}
	g.n++
	if g.n >= need {
		g.open = true
		close(g.ch)
		st.mu.Unlock()
		return
	}
	st.mu.Unlock()
	select {
	case <-g.ch:
	case <-time.After(20 * time.Second):
		st.mu.Lock()
		st.lsOff = true
		if !g.open {
			g.open = true
			close(g.ch)
		}
		st.mu.Unlock()
	}
}

var active struct {
	sync.Mutex
	st *RunState
}

func init() {
	for i, it := range randomness.TestMethodArr {
		ItemNames = append(ItemNames, it.Name)
		origRunners = append(origRunners, it.Runner)
		randomness.TestMethodArr[i].Runner = wrapRunner(i)
	}
}

func current() *RunState {
	active.Lock()
	defer active.Unlock()
	return active.st
}

func setCurrent(s *RunState) {
	active.Lock()
	active.st = s
	active.Unlock()
}

func wrapRunner(item int) randomness.TestFunc {
	return func(data []byte) *randomness.TestResult {
		st := current()
		if st == nil {
			return origRunners[item](data)
		}
		if st.inPrelude() || st.fromCompanion() {
			// an earlier call of the same run: nothing recorded. Its results do
			// not matter to the oracle; with scripted runners every cell passes
			// (cheap at any sample size), with real runners they are real.
			if st.cfg.Runners.Mode == "real" {
				return origRunners[item](data)
			}
			if st.sim {
				simrt.Yield("runner." + itoa(item))
			}
			c := mkCell(item, 0.55)
			return &randomness.TestResult{Name: ItemNames[item], P: c.P, Q: c.Q, P2: c.P2, Q2: c.Q2, Pass: c.Pass}
		}
		if st.sim {
			simrt.Yield("runner." + itoa(item))
		} else {
			stir(uint64(len(data)*31 + item))
			if st.cfg.Runners.Lockstep {
				st.lockstep(item)
			}
		}
		if sp := st.cfg.Runners; st.sim && sp.SlowEvery > 0 {
			st.mu.Lock()
			st.ncalls++
			slow := st.ncalls%sp.SlowEvery == 0 && st.ncalls/sp.SlowEvery <= 60
			st.mu.Unlock()
			if slow {
				// a test that takes long (a loaded machine, a big sample)
				time.Sleep(time.Duration(sp.SlowSec) * time.Second)
				simrt.Yield("runner.slow")
			}
		}
		k, diff := st.identify(data)
		var res *randomness.TestResult
		if st.cfg.Runners.Mode == "real" {
			res = st.realCached(item, data)
		} else {
			c := Cell{}
			if k >= 0 {
				c = st.matrix[k][item]
			}
			res = &randomness.TestResult{Name: ItemNames[item], P: c.P, Q: c.Q, P2: c.P2, Q2: c.Q2, Pass: c.Pass}
		}
		st.mu.Lock()
		if ks := st.dups[k]; k >= 0 && len(ks) > 0 {
			for _, kk := range ks {
				if _, done := st.Observed[kk][item]; !done {
					k = kk
					break
				}
			}
		}
		st.Calls = append(st.Calls, Call{Item: item, Sample: k, Len: len(data), Diff: diff})
		if k >= 0 {
			if st.Observed[k] == nil {
				st.Observed[k] = map[int]Cell{}
			}
			st.Observed[k][item] = Cell{P: res.P, Q: res.Q, P2: res.P2, Q2: res.Q2, Pass: res.Pass}
		}
		st.mu.Unlock()
		return res
	}
}

// addCompanion registers the root task of a companion call: runner calls made
// by it or by the tasks it spawns are answered like a prelude's (all-pass or
// real) and not recorded.
func (st *RunState) addCompanion(id string) {
	st.mu.Lock()
	st.companions = append(st.companions, id)
	st.mu.Unlock()
}

// addNested registers a task whose descendants belong to a detection nested
// inside a device Read (the task itself keeps working for the observed call).
func (st *RunState) addNested(id string) {
	st.mu.Lock()
	st.nested = append(st.nested, id)
	st.mu.Unlock()
}

func (st *RunState) fromCompanion() bool {
	st.mu.Lock()
	cs := st.companions
	ns := st.nested
	st.mu.Unlock()
	if len(cs) == 0 && len(ns) == 0 {
		return false
	}
	id := simrt.CurrentID()
	for _, c := range ns {
		if len(id) > len(c) && id[:len(c)] == c && id[len(c)] == '.' {
			return true
		}
	}
	for _, c := range cs {
		if id == c || (len(id) > len(c) && id[:len(c)] == c && id[len(c)] == '.') {
			return true
		}
	}
	return false
}

func (st *RunState) setPrelude(on bool) {
	st.mu.Lock()
	st.prelude = on
	st.mu.Unlock()
}

func (st *RunState) inPrelude() bool {
	st.mu.Lock()
	defer st.mu.Unlock()
	return st.prelude
}

func itoa(i int) string {
	if i < 10 {
		return string(rune('0' + i))
	}
	return string(rune('0'+i/10)) + string(rune('0'+i%10))
}

// identify maps a buffer handed to a runner back to the stream sample it is.
func (st *RunState) identify(data []byte) (int, int) {
	if !st.track {
		return -2, 0
	}
	B := st.wi.SampleBytes
	if len(data) >= 16 {
		if k, ok := st.index[string(data[:16])]; ok {
			exp := st.stream.Slice(int64(k)*int64(B), B)
			if len(data) == B && bytes.Equal(data, exp) {
				return k, 0
			}
			n := len(data)
			if n > B {
				n = B
			}
			for i := 0; i < n; i++ {
				if data[i] != exp[i] {
					return -1, i
				}
			}
			return -1, n
		}
	}
	return -1, 0
}

// NewRunState prepares wrappers state for a run.
func NewRunState(cfg *RunConfig, st *Stream, sim bool) *RunState {
	rs := &RunState{cfg: cfg, sim: sim, stream: st, wi: Info(cfg.Workflow), Observed: map[int]map[int]Cell{}}
	if cfg.Workflow != WSingle && st.Len() >= 0 {
		rs.track = true
		rs.index = map[string]int{}
		B := rs.wi.SampleBytes
		for k := 0; k < rs.wi.Samples; k++ {
			s := st.Slice(int64(k)*int64(B), 16)
			if s == nil {
				continue
			}
			if k0, ok := rs.index[string(s)]; ok {
				// the same content as an earlier sample (a repeated sample): calls
				// are attributed to the copies in turn, results are those of the first
				if cfg.Stream.DupLen > 0 && bytes.Equal(st.Slice(int64(k0)*int64(B), B), st.Slice(int64(k)*int64(B), B)) {
					if rs.dups == nil {
						rs.dups = map[int][]int{}
					}
					if len(rs.dups[k0]) == 0 {
						rs.dups[k0] = []int{k0}
					}
					rs.dups[k0] = append(rs.dups[k0], k)
					continue
				}
			}
			rs.index[string(s)] = k
		}
		if cfg.Runners.Mode != "real" {
			rs.matrix = BuildMatrix(cfg.Runners, rs.wi.Samples)
			for k0, ks := range rs.dups {
				for _, k := range ks {
					rs.matrix[k] = rs.matrix[k0]
				}
			}
		}
	}
	return rs
}

func flatBins(s int) []int {
	b := make([]int, 10)
	for i := range b {
		b[i] = s / 10
	}
	for i := 0; i < s%10; i++ {
		b[i]++
	}
	return b
}

func mkCell(item int, q float64) Cell {
	p := q
	if twoSided[item] {
		p = 2 * q
		if 1-q < q {
			p = 2 * (1 - q)
		}
	}
	return Cell{P: p, Q: q, P2: p, Q2: q, Pass: p >= alpha}
}

// BuildMatrix expands a RunnerSpec into the s x 15 matrix of scripted results.
// Cells are self-consistent with the library's result semantics: chi-square
// items have Q = P, two-sided items P = 2 min(Q, 1-Q), Pass <=> P >= 0.01, and
// the overlapping item's second pair equals its first.
func BuildMatrix(sp RunnerSpec, s int) [][]Cell {
	m := make([][]Cell, s)
	for k := range m {
		m[k] = make([]Cell, 15)
	}
	dir := map[int]ItemDirective{}
	for _, d := range sp.Dir {
		dir[d.Item] = d
	}
	for item := 0; item < 15; item++ {
		r := simctl.NewRand(simctl.Mix(sp.Seed, uint64(item)))
		d, ok := dir[item]
		if !ok {
			d = ItemDirective{Item: item, PassCount: -1}
		}
		bins := append([]int(nil), d.Bins...)
		if len(bins) != 10 {
			bins = flatBins(s)
		}
		fails := 0
		if d.PassCount >= 0 && d.PassCount < s {
			fails = s - d.PassCount
		}
		qs := make([]float64, 0, s)
		// p2fail[i]: the overlapping item (two P-values, Pass <=> min(P1, P2) >=
		// alpha) fails sample i through its second P-value only: P1 = Q1 is an
		// ordinary mid-range value
		p2fail := map[int]bool{}
		// failing samples first: their Q is forced into the extreme bins
		for f := 0; f < fails; f++ {
			q := 0.0005 + 0.004*r.Float64() // P = Q < 0.01 (chi-square) or P = 2Q < 0.01 (two-sided)
			b := 0
			if twoSided[item] && (f%2 == 1 || d.FailHigh) {
				q = 1 - q
				b = 9
			}
			if item == 3 && (f%2 == 1 || d.P2Only) {
				// fullest bin, mid-range Q1; the failure is in P2
				mx := 0
				for i := range bins {
					if bins[i] > bins[mx] {
						mx = i
					}
				}
				b = mx
				q = (float64(b) + 0.2 + 0.6*r.Float64()) / 10
				if q < 0.02 {
					q = 0.02
				}
				p2fail[len(qs)] = true
			}
			if bins[b] > 0 {
				bins[b]--
			} else {
				// take the slot from the fullest bin so the total stays s
				mx := 0
				for i := range bins {
					if bins[i] > bins[mx] {
						mx = i
					}
				}
				if bins[mx] > 0 {
					bins[mx]--
				}
			}
			qs = append(qs, q)
		}
		for b := 0; b < 10 && len(qs) < s; b++ {
			for c := 0; c < bins[b] && len(qs) < s; c++ {
				lo, hi := float64(b)/10, float64(b+1)/10
				var q float64
				switch {
				case d.Edge && b >= 1 && !(b == 9 && !twoSided[item] && c == 0):
					q = float64(b) / 10
				case d.Edge && b == 9 && !twoSided[item] && c == 0:
					q = 1.0
				default:
					q = lo + (hi-lo)*(0.15+0.7*r.Float64())
				}
				qs = append(qs, q)
			}
		}
		for len(qs) < s {
			qs = append(qs, 0.15+0.7*r.Float64())
		}
		for i, left := fails, d.AlphaEdge; i < len(qs) && left > 0; i++ {
			if qs[i] < 0.1 {
				// P exactly alpha: Q = 0.01 (chi-square) or 0.005 (two-sided, P = 2Q)
				qs[i] = alpha
				if twoSided[item] {
					qs[i] = alpha / 2
				}
				left--
			}
		}
		// seeded permutation over samples
		perm := make([]int, s)
		for i := range perm {
			perm[i] = i
		}
		for i := s - 1; i > 0; i-- {
			j := r.Intn(i + 1)
			perm[i], perm[j] = perm[j], perm[i]
		}
		for i, q := range qs {
			c := mkCell(item, q)
			if p2fail[i] {
				c.P2 = 0.0005 + 0.004*r.Float64()
				c.Q2 = c.P2
				c.Pass = false
			} else if item == 3 && c.Pass {
				// a passing overlapping result has two different, passing pairs
				c.P2 = 0.02 + 0.97*r.Float64()
				if d.Q2Bin >= 1 && d.Q2Bin <= 10 {
					c.P2 = (float64(d.Q2Bin-1) + 0.25 + 0.7*r.Float64()) / 10
				}
				c.Q2 = c.P2
			}
			m[perm[i]][item] = c
		}
		if sp.Random > 0 {
			for k := 0; k < s; k++ {
				q := r.Float64()
				if r.Intn(1000) < sp.Random {
					q = 0.0005 + 0.004*r.Float64()
					if twoSided[item] && r.Intn(2) == 0 {
						q = 1 - q
					}
				} else if mkCell(item, q).P < alpha {
					q = 0.5
				}
				m[k][item] = mkCell(item, q)
			}
		}
	}
	return m
}

// realCached calls the real runner. For endless periodic streams, where the
// samples of a run are a handful of rotations of each other, results are
// memoised per (item, buffer content) within the run: purely a cost saving,
// it assumes only that a runner is a function of its input (C18's subject).
func (st *RunState) realCached(item int, data []byte) *randomness.TestResult {
	if st.stream.Len() >= 0 || len(data) < 100000 {
		return origRunners[item](data)
	}
	key := string(appendU(nil, uint64(item))) + string(data)
	st.mu.Lock()
	if st.memo == nil {
		st.memo = map[string]*randomness.TestResult{}
	}
	if r, ok := st.memo[key]; ok {
		st.mu.Unlock()
		cp := *r
		return &cp
	}
	st.mu.Unlock()
	r := origRunners[item](data)
	st.mu.Lock()
	st.memo[key] = r
	st.mu.Unlock()
	cp := *r
	return &cp
}
