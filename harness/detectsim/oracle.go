package detectsim

import (
	"fmt"
	"math"
	"sort"
)

// Violation is one failed oracle clause.
type Violation struct {
	Prop   string `json:"prop"`
	Clause string `json:"clause"`
	Detail string `json:"detail"`
}

func v(prop, clause, format string, a ...interface{}) Violation {
	return Violation{prop, clause, fmt.Sprintf(format, a...)}
}

// liveness: the main task returned before quiescence and within the step
// budget, and no task panicked.
func checkLive(prop string, o *Outcome) []Violation {
	var vs []Violation
	for _, p := range o.Sim.Panics {
		first := p.Panic
		if i := indexByte(first, '\n'); i > 0 {
			first = first[:i]
		}
		vs = append(vs, v(prop, "panic", "task %s (%s) panicked: %s", p.ID, p.Site, first))
	}
	if o.Sim.Abandoned {
		// the run was given up for taking too long in real time: inconclusive
		return vs
	}
	if !o.Sim.MainReturned && len(vs) == 0 {
		if o.Sim.StepLimit {
			vs = append(vs, v(prop, "hang", "step budget %d exhausted, workflow has not returned; tasks: %s", o.Sim.Steps, leakStr(o)))
		} else {
			vs = append(vs, v(prop, "hang", "quiescent after %d steps, workflow has not returned; blocked: %s", o.Sim.Steps, leakStr(o)))
		}
	}
	return vs
}

func indexByte(s string, c byte) int {
	for i := 0; i < len(s); i++ {
		if s[i] == c {
			return i
		}
	}
	return -1
}

func leakStr(o *Outcome) string {
	s := ""
	for i, l := range o.Sim.Leaked {
		if i >= 6 {
			s += fmt.Sprintf("... (%d tasks)", len(o.Sim.Leaked))
			break
		}
		s += fmt.Sprintf("%s@%s ", l.ID, l.Label)
	}
	return s
}

// verdict/err consistency.
func checkShape(prop string, o *Outcome) []Violation {
	var vs []Violation
	if !o.Returned {
		return vs
	}
	if o.Verdict && !o.ErrNil {
		vs = append(vs, v(prop, "true-with-error", "verdict true with error %q", o.Err))
	}
	if !o.Verdict && o.ErrNil {
		vs = append(vs, v(prop, "false-without-error", "verdict false with nil error"))
	}
	return vs
}

// history: which stream bytes were judged. Only what the properties state is
// demanded: a sample-sized (or recognisably corrupted) buffer that is not an
// aligned stream sample was judged instead of fresh consecutive stream bytes;
// a TRUE verdict needs every judged item to have seen every one of the s
// samples before it was returned. A false verdict may legitimately be
// returned early (the remaining samples cannot change it), tests may be run
// more than once, and buffers of other sizes (say a known-answer self-test)
// are none of this oracle's business.
func checkHistory(prop string, o *Outcome, items int) []Violation {
	var vs []Violation
	wi := Info(o.Cfg.Workflow)
	seen := map[[2]int]int{}
	foreign := 0
	var firstForeign Call
	for _, c := range o.Calls {
		if c.Sample == -2 {
			return nil
		}
		if c.Sample == -1 {
			if c.Len != wi.SampleBytes && c.Diff == 0 {
				// neither sample-sized nor starting like a stream sample
				continue
			}
			if foreign == 0 {
				firstForeign = c
			}
			foreign++
			continue
		}
		seen[[2]int{c.Item, c.Sample}]++
	}
	if foreign > 0 {
		vs = append(vs, v(prop, "foreign-buffer", "%d runner calls were handed a buffer that is not a sample of the stream (first: item %d, len %d, first differing offset %d)", foreign, firstForeign.Item, firstForeign.Len, firstForeign.Diff))
	}
	if !o.Returned || len(o.Calls) == 0 || !o.Verdict {
		return vs
	}
	if o.CallsAtReturn >= 0 && o.CallsAtReturn < len(o.Calls) {
		// a test ran on a sample after the verdict TRUE had been returned: that
		// sample cannot have been part of the judgement
		late := o.Calls[o.CallsAtReturn]
		vs = append(vs, v(prop, "late-judgement", "%d runner calls happened after the workflow had returned true (first: item %d on sample %d)", len(o.Calls)-o.CallsAtReturn, late.Item, late.Sample))
	}
	for it := 0; it < items; it++ {
		for k := 0; k < wi.Samples; k++ {
			if seen[[2]int{it, k}] == 0 {
				vs = append(vs, v(prop, "sample-accounting", "verdict true although item %d never judged sample %d", it, k))
				return vs
			}
		}
	}
	return vs
}

// expected decision for a tracked scripted run.
func modelFor(o *Outcome, items int) (Decision, bool) {
	wi := Info(o.Cfg.Workflow)
	var m [][]Cell
	if o.Cfg.Runners.Mode == "real" {
		m = make([][]Cell, wi.Samples)
		for k := 0; k < wi.Samples; k++ {
			m[k] = make([]Cell, 15)
			for it := 0; it < items; it++ {
				c, ok := o.Observed[k][it]
				if !ok {
					return Decision{}, false
				}
				m[k][it] = c
			}
		}
	} else if len(o.Calls) == 0 && o.Returned {
		// No runner was called through the registry seam: the round functions
		// have been rewired to call the tests directly. The scripted results
		// never reached the workflow, so the model is fed with what the tests
		// really return on the stream's samples (affordable for the 20 000-bit
		// workflows only; otherwise the decision is unobservable, not wrong).
		if wi.SampleBytes > 2500 || o.Stream == nil || o.Stream.Len() < 0 {
			return Decision{}, false
		}
		m = make([][]Cell, wi.Samples)
		for k := 0; k < wi.Samples; k++ {
			m[k] = make([]Cell, 15)
			data := o.Stream.Slice(int64(k)*int64(wi.SampleBytes), wi.SampleBytes)
			if data == nil {
				return Decision{}, false
			}
			for it := 0; it < items; it++ {
				r := origRunners[it](append([]byte(nil), data...))
				m[k][it] = Cell{P: r.P, Q: r.Q, P2: r.P2, Q2: r.Q2, Pass: r.Pass}
			}
		}
	} else {
		m = o.Matrix
		if m == nil {
			return Decision{}, false
		}
	}
	return DecisionModel(m, wi.Samples, items), true
}

func violatorList(d Decision) string {
	var ks []int
	for k := range d.Violators {
		ks = append(ks, k)
	}
	sort.Ints(ks)
	s := ""
	for _, k := range ks {
		s += fmt.Sprintf("[%d %s: %s] ", k, ItemNames[k], d.Violators[k])
	}
	return s
}

// checkDecision compares the verdict and the named item with the model.
func checkDecision(prop string, o *Outcome, items int) []Violation {
	var vs []Violation
	if !o.Returned {
		return vs
	}
	d, ok := modelFor(o, items)
	if !ok {
		return vs
	}
	if d.Borderline {
		return vs
	}
	if o.Verdict != d.Verdict {
		vs = append(vs, v(prop, "verdict", "verdict %v (err %q), decision rule gives %v; pass counts %v, P_T %s, violating items: %s", o.Verdict, o.Err, d.Verdict, d.PassCounts, ptStr(d.PT), violatorList(d)))
		return vs
	}
	if !o.Verdict && !o.ErrNil {
		if _, bad := d.Violators[o.NamedItem]; !bad {
			vs = append(vs, v(prop, "error-names-wrong-item", "error %q names item %d, violating items are: %s", o.Err, o.NamedItem, violatorList(d)))
		}
	}
	return vs
}

func ptStr(pt []float64) string {
	s := "["
	for i, p := range pt {
		if i > 0 {
			s += " "
		}
		s += fmt.Sprintf("%.3g", p)
	}
	return s + "]"
}

// OracleC07: sequential verdict = GM/T decision rule; tail independence.
func OracleC07(o, twin *Outcome) []Violation {
	const P = "C07"
	wi := Info(o.Cfg.Workflow)
	var vs []Violation
	vs = append(vs, checkLive(P, o)...)
	vs = append(vs, checkShape(P, o)...)
	vs = append(vs, checkDecision(P, o, wi.Items)...)
	vs = append(vs, checkHistory(P, o, wi.Items)...)
	if o.Returned && o.Verdict && o.Src.Delivered >= 0 && o.Src.Delivered < o.Cfg.Required() {
		// (a false verdict may be returned before the last sample was read)
		vs = append(vs, v(P, "under-read", "workflow returned true after consuming %d bytes, %d are required", o.Src.Delivered, o.Cfg.Required()))
	}
	if twin != nil && o.Returned {
		if !twin.Returned || twin.Verdict != o.Verdict || twin.Err != o.Err {
			vs = append(vs, v(P, "tail-dependence", "same %d judged bytes, different bytes after them: (%v,%q) vs (%v,%q) returned=%v", o.Cfg.Required(), o.Verdict, o.Err, twin.Verdict, twin.Err, twin.Returned))
		}
	}
	return vs
}

// OracleC08: Fast variant versus its sequential counterpart on the same stream.
func OracleC08(seq, fast *Outcome) []Violation {
	const P = "C08"
	wi := Info(fast.Cfg.Workflow)
	var vs []Violation
	vs = append(vs, checkLive(P, fast)...)
	vs = append(vs, checkShape(P, fast)...)
	if fast.Returned && seq.Returned {
		if fast.Verdict != seq.Verdict {
			vs = append(vs, v(P, "fast-verdict-differs", "%s returned (%v,%q), %s returned (%v,%q) on the same stream", fast.Cfg.Workflow, fast.Verdict, fast.Err, seq.Cfg.Workflow, seq.Verdict, seq.Err))
		} else if !fast.Verdict && fast.NamedItem != seq.NamedItem {
			vs = append(vs, v(P, "fast-item-differs", "%s names item %d (%q), %s names item %d (%q)", fast.Cfg.Workflow, fast.NamedItem, fast.Err, seq.Cfg.Workflow, seq.NamedItem, seq.Err))
		}
	}
	if k := fast.Cfg.Fault.Kind; k != "" && k != "none" {
		// a stream the source did not deliver completely: only the comparison
		// with the sequential workflow applies (what a failing source must lead
		// to in its own right is C09's subject)
		return vs
	}
	// "in particular the periodic variant judges exactly the first twelve"
	for _, x := range checkDecision(P, fast, wi.Items) {
		x.Clause = "fast-vs-rule:" + x.Clause
		vs = append(vs, x)
	}
	vs = append(vs, checkHistory(P, fast, wi.Items)...)
	return vs
}

// OracleC09: failing source => prompt (false, error), no hang, nothing left
// blocked.
func OracleC09(o *Outcome) []Violation {
	const P = "C09"
	var vs []Violation
	if o.Cfg.Fault.Kind == "" || o.Cfg.Fault.Kind == "none" || o.Cfg.Fault.At >= o.Cfg.Required() {
		return nil
	}
	// The device cannot deliver the required bytes without first returning an
	// error (At < required), so every clause applies whether or not the
	// workflow went on reading far enough to see that error.
	vs = append(vs, checkLive(P, o)...)
	if o.Returned {
		if o.Verdict {
			vs = append(vs, v(P, "pass-on-failed-source", "verdict true although the source failed after %d of %d bytes", o.Src.Delivered, o.Cfg.Required()))
		} else if o.ErrNil {
			vs = append(vs, v(P, "false-without-error", "verdict false with nil error after the source failed"))
		}
		for _, l := range o.Sim.Leaked {
			vs = append(vs, v(P, "goroutine-left-blocked", "after the workflow returned, task %s (%s) is still blocked at %s", l.ID, l.Site, l.Label))
			break
		}
	}
	return vs
}

// OracleC10: chunked delivery versus full-buffer delivery of the same bytes.
func OracleC10(full, chunked *Outcome) []Violation {
	const P = "C10"
	var vs []Violation
	wi := Info(chunked.Cfg.Workflow)
	vs = append(vs, checkLive(P, chunked)...)
	if chunked.Returned && full.Returned {
		if chunked.Verdict != full.Verdict {
			vs = append(vs, v(P, "chunking-changes-verdict", "short reads (%s/%d): (%v,%q); full reads: (%v,%q)", chunked.Cfg.Chunk.Kind, chunked.Cfg.Chunk.K, chunked.Verdict, chunked.Err, full.Verdict, full.Err))
		} else if !chunked.Verdict && chunked.NamedItem != full.NamedItem {
			vs = append(vs, v(P, "chunking-changes-item", "short reads: %q; full reads: %q", chunked.Err, full.Err))
		}
	}
	if chunked.Cfg.Workflow != WSingle {
		for _, x := range checkHistory(P, chunked, wi.Items) {
			vs = append(vs, x)
		}
	}
	return vs
}

// OracleC11: single-shot detection.
func OracleC11(o *Outcome) []Violation {
	const P = "C11"
	var vs []Violation
	vs = append(vs, checkLive(P, o)...)
	if !o.Returned {
		return vs
	}
	nb := o.Cfg.NumByte
	if o.Src.Delivered >= 0 && o.Src.Delivered != int64(nb) {
		vs = append(vs, v(P, "bytes-consumed", "requested %d bytes, %d were consumed from the source", nb, o.Src.Delivered))
	}
	if nb < 16 {
		if o.Verdict || o.ErrNil {
			vs = append(vs, v(P, "short-not-rejected", "numByte=%d (<16) returned (%v, err nil=%v)", nb, o.Verdict, o.ErrNil))
		}
		return vs
	}
	data := o.Stream.Slice(0, nb)
	m := SingleM(nb * 8)
	p := PokerModel(data, m)
	if math.Abs(p-alpha) < 1e-9 {
		return vs
	}
	want := p >= alpha
	if !o.ErrNil {
		vs = append(vs, v(P, "unexpected-error", "numByte=%d: error %q on a healthy source", nb, o.Err))
		return vs
	}
	if o.Verdict != want {
		alt := ""
		for _, mm := range []int{2, 4, 8} {
			alt += fmt.Sprintf(" m=%d:P=%.6g", mm, PokerModel(data, mm))
		}
		vs = append(vs, v(P, "verdict", "numByte=%d (%d bits): verdict %v, poker m=%d gives P=%.6g (want %v);%s", nb, nb*8, o.Verdict, m, p, want, alt))
	}
	return vs
}

// OracleC14: stuck-at / short-cycle device must be rejected.
func OracleC14(o *Outcome) []Violation {
	const P = "C14"
	var vs []Violation
	vs = append(vs, checkLive(P, o)...)
	if !o.Returned {
		return vs
	}
	if o.Verdict {
		vs = append(vs, v(P, "periodic-source-passed", "verdict true on a %s stream", o.Cfg.Stream.Kind))
	} else if o.ErrNil && o.Cfg.Workflow != WSingle {
		// SingleDetect reports a failed poker test as (false, nil): C11 defines
		// its result that way and C14 only asks that it "is rejected", so a
		// nil error is not held against the single-shot detection.
		vs = append(vs, v(P, "false-without-error", "verdict false with nil error"))
	}
	return vs
}
