#!/usr/bin/env python3
"""Rewrites DESIGN.md sections 10.1 and 10.2 (what catches what) from mutants/index.json, seeded/*/meta.json and
mutants/last_sensitivity.json (written by ./check selftest-sensitivity)."""
import json, os, glob, re

VERIF = os.path.dirname(os.path.dirname(os.path.abspath(__file__)))
sens = json.load(open(os.path.join(VERIF, "mutants", "last_sensitivity.json")))
rows = {r["name"]: r for r in sens["rows"]}


def clauses(detail):
    cl = re.findall(r"clause=([^ ]+(?: [^ ]+){0,3}?) workflow=", detail)
    out = []
    for c in cl:
        c = c.strip()
        if c not in out:
            out.append(c)
    return ", ".join("`%s`" % c[:60] for c in out[:3]) or "?"


def esc(s):
    return s.replace("|", "\\|").replace("\n", " ")


idx = json.load(open(os.path.join(VERIF, "mutants", "index.json")))
t1 = ["| patch | property | what | status | clause that reports it |", "|---|---|---|---|---|"]
for m in idx:
    r = rows.get(m["name"], {"status": "not run", "detail": ""})
    t1.append("| %s | %s | %s | %s | %s |" % (m["name"].split("-")[0], m["property"], esc(m["what"]), r["status"], clauses(r["detail"])))

t2 = ["| id | property | change | caught by | needed before the quick tier caught it |", "|---|---|---|---|---|"]
metas = sorted(glob.glob(os.path.join(VERIF, "seeded", "*", "meta.json")))
nvalid = ndet = 0
for mp in metas:
    m = json.load(open(mp))
    name = "seeded/" + os.path.basename(os.path.dirname(mp))
    r = rows.get(name, {"status": "not run", "detail": ""})
    nvalid += 1 if m.get("valid") else 0
    ndet += 1 if r["status"] == "DETECTED" else 0
    props = [p for p in re.findall(r"(C\d\d) rc=1", r["detail"])]
    by = "; ".join("%s" % p for p in props)
    t2.append("| %s | %s | %s | %s: %s | %s |" % (m["id"].split("-")[0], m["property"], esc(m.get("what", "")), by or r["status"], clauses(r["detail"]), esc(m.get("needed", "—"))))

p = os.path.join(VERIF, "DESIGN.md")
s = open(p).read()
i1 = s.index("### 10.1 ")
i2 = s.index("### 10.2 ")
end = s.index("\n## ", i2) if "\n## " in s[i2:] else len(s)
head1 = "### 10.1 Catalogue (mutants/, %d patches) — status of the last `./check selftest-sensitivity` (seed %s)\n\n" % (len(idx), sens.get("seed"))
head2 = ("### 10.2 Seeded changes from independent sub-agents (seeded/, %d changes in twelve waves) — %d valid, %d detected by the quick tier\n\n"
         "Each was confirmed in a fresh worktree of /repo (compiles, the fast existing tests pass, its own\n"
         "demonstration fails with it and passes without it; `meta.json` has the commands and results).\n"
         "\"Needed\" says what had to be added to the machinery before the quick tier caught it (— : caught as it was).\n\n") % (len(metas), nvalid, ndet)
s = s[:i1] + head1 + "\n".join(t1) + "\n\n" + head2 + "\n".join(t2) + "\n" + s[end:]
open(p, "w").write(s)
print("DESIGN.md: %d catalogue rows, %d seeded rows (%d detected)" % (len(idx), len(metas), ndet))
