#!/usr/bin/env python3
"""Generates /verif/mutants/*.patch from (file, old, new) edits against /repo HEAD. Each patch breaks one claimed
property while compiling (the sensitivity catalogue of DESIGN.md §3.6)."""
import os, subprocess, tempfile, shutil, json
REPO="/repo"; OUT="/verif/mutants"
M=[
("M01-c09-no-done-on-error","C09","Fast worker skips wait.Done() on a read error (hang)",[("detect/detect_fast.go","		if err != nil {\n			wait.Done()\n			continue\n		}","		if err != nil {\n			continue\n		}")]),
("M02-c10-read-not-readfull","C10","Fast worker uses a single source.Read under the lock",[("detect/detect_fast.go","_, err = io.ReadFull(source, buf)","_, err = source.Read(buf)")]),
("M03-c10-no-lock","C10","Fast workers call io.ReadFull without serialising",[("detect/detect_fast.go","		lock.Lock()\n		err := *readErr\n		if err == nil {\n			_, err = io.ReadFull(source, buf)\n			*readErr = err\n		}\n		lock.Unlock()","		_, err := io.ReadFull(source, buf)\n		if err != nil {\n			lock.Lock()\n			*readErr = err\n			lock.Unlock()\n		}")]),
("M04-c08-nonatomic-counter","C08","pass counter incremented without atomic (race clause only)",[("detect/detect_fast.go","atomic.AddInt32(&counter[idx], 1)","counter[idx]++"),("detect/detect_fast.go",'	"sync/atomic"\n',"")]),
("M05-c08-done-before-publish","C08","wait.Done() before the results are published",[("detect/detect_fast.go","		resArr := round(buf)\n		for idx, result := range resArr {","		resArr := round(buf)\n		wait.Done()\n		for idx, result := range resArr {"),("detect/detect_fast.go","			}\n		}\n		wait.Done()\n	}\n}","			}\n		}\n	}\n}")]),
("M06-c08-shared-buffer","C08","one sample buffer shared by all workers",[("detect/detect_fast.go","	buf := make([]byte, n, n*2)\n	for i := range jobs {","	buf := sharedBuf(n)\n	for i := range jobs {"),("detect/detect_fast.go","// 根据处理器情况启动worker","var theBuf []byte\n\nfunc sharedBuf(n int) []byte {\n	if len(theBuf) != n {\n		theBuf = make([]byte, n)\n	}\n	return theBuf\n}\n\n// 根据处理器情况启动worker")]),
("M07-c08-period-round15","C08","PeriodDetectFast judges fifteen items",[("detect/detect_fast.go","	counters := make([]int32, 12)\n	distributions := createDistributions(s, 12)\n	jobs, wg, readErr := bootWorker(source, n, Round12, counters, distributions)","	counters := make([]int32, 15)\n	distributions := createDistributions(s, 15)\n	jobs, wg, readErr := bootWorker(source, n, Round15, counters, distributions)")]),
("M08-c07-le-threshold","C07","FactoryDetect rejects a pass count equal to the threshold",[("detect/detect.go","	for i, n := range counters {\n		if n < t {\n			return false, fmt.Errorf(\"%s %d/%d\", randomness.TestMethodArr[i].Name, n, s)\n		}\n	}\n	for i := range distributions {\n		Pt := ThresholdQ(distributions[i])\n		if Pt < randomness.AlphaT {\n			return false, fmt.Errorf(\"%s %f\", randomness.TestMethodArr[i].Name, Pt)\n		}\n	}\n	return true, nil\n}\n\n// PowerOnDetect","	for i, n := range counters {\n		if n <= t {\n			return false, fmt.Errorf(\"%s %d/%d\", randomness.TestMethodArr[i].Name, n, s)\n		}\n	}\n	for i := range distributions {\n		Pt := ThresholdQ(distributions[i])\n		if Pt < randomness.AlphaT {\n			return false, fmt.Errorf(\"%s %f\", randomness.TestMethodArr[i].Name, Pt)\n		}\n	}\n	return true, nil\n}\n\n// PowerOnDetect")]),
("M09-c07-uniformity-over-p","C07","PeriodDetect takes the uniformity over P instead of Q",[("detect/detect.go","		resArr := Round12(buf)\n		for idx, result := range resArr {\n			distributions[idx][i] = result.Q","		resArr := Round12(buf)\n		for idx, result := range resArr {\n			distributions[idx][i] = result.P")]),
("M10-c13-swapped-columns","C13","1E6 report: autocorrelation d=2 and d=8 values swapped",[("tools/rddetector/work_1E6.go","		p, q = randomness.AutocorrelationProto(bits, 2)\n		PArr = append(PArr, p)\n		QArr = append(QArr, q)\n		log.Printf(\"[%s] 自相关检测 m=2 P: %.5f Q: %.5f\", filename, p, q)\n		p, q = randomness.AutocorrelationProto(bits, 8)","		p, q = randomness.AutocorrelationProto(bits, 8)\n		PArr = append(PArr, p)\n		QArr = append(QArr, q)\n		log.Printf(\"[%s] 自相关检测 m=2 P: %.5f Q: %.5f\", filename, p, q)\n		p, q = randomness.AutocorrelationProto(bits, 2)")]),
("M11-c13-done-before-row","C13","result writer signals completion before writing the row",[("tools/rddetector/main.go","	for r := range in {\n		_, _ = w.Write([]byte(r.Name))","	for r := range in {\n		wg.Done()\n		_, _ = w.Write([]byte(r.Name))"),("tools/rddetector/main.go","		_, _ = w.Write([]byte(\"\\n\"))\n		wg.Done()\n","		_, _ = w.Write([]byte(\"\\n\"))\n")]),
("M12-c20-done-before-write","C20","rdgen worker signals completion before writing the file",[("tools/rdgen/main.go","		_, err = w.Write(buf)\n		_ = w.Close()\n		wg.Done()","		wg.Done()\n		_, err = w.Write(buf)\n		_ = w.Close()")]),
("M13-c18-shared-matrix","C18","matrix-rank scratch matrix hoisted to package level",[("matrix_rank.go","	var matrix = make([][]int, 32)\n	for i := 0; i < 32; i++ {\n		matrix[i] = make([]int, 32)\n	}\n","	matrix := rankScratch\n"),("matrix_rank.go","// MatrixRankProto","var rankScratch = func() [][]int {\n	m := make([][]int, 32)\n	for i := range m {\n		m[i] = make([]int, 32)\n	}\n	return m\n}()\n\n// MatrixRankProto")]),
("M14-c18-derivative-in-place","C18","binary derivative computed in place on the caller's slice for samples of 20000 bits and more",[("binary_derivative.go","	_bits := make([]bool, len(bits))\n	copy(_bits, bits)\n","	_bits := bits\n	if n < 20000 {\n		_bits = make([]bool, len(bits))\n		copy(_bits, bits)\n	}\n")]),
("M15-c11-boundary-320","C11","SingleDetect uses m=2 up to and including 320 bits",[("detect/detect.go","	if n < 320 {\n		m = 2","	if n <= 320 {\n		m = 2")]),
("M16-c09-single-swallows-eof","C09","SingleDetect ignores io.EOF / unexpected EOF from the source",[("detect/detect.go","	_, err := io.ReadFull(source, data)\n	if err != nil {\n		return false, err\n	}\n	n := len(data) * 8","	_, err := io.ReadFull(source, data)\n	if err != nil && err != io.EOF && err != io.ErrUnexpectedEOF {\n		return false, err\n	}\n	n := len(data) * 8")]),
("M17-c14-fast-error-lost","C14","PowerOnDetectFast reports a failed pass count as (false, nil)",[("detect/detect_fast.go","	fmt.Println(counters)\n\n	for i, itemCnt := range counters {\n		if int(itemCnt) < t {\n			return false, fmt.Errorf(\"%s %d/%d\", randomness.TestMethodArr[i].Name, itemCnt, s)","	fmt.Println(counters)\n\n	for _, itemCnt := range counters {\n		if int(itemCnt) < t {\n			return false, nil")]),
("M19-c13-unsynchronised-row-slice","C13","2E4 workers append their row to a package-level slice without a lock and main writes the rows after Wait (torn appends lose rows only on real threads: race-monitor clause)",[
  ("tools/rddetector/work_2E4.go","		go func(file string) {\n			out <- &R{path.Base(file), PArr, QArr}\n		}(filename)","		collected = append(collected, &R{path.Base(filename), PArr, QArr})\n		pending.Done()"),
  ("tools/rddetector/main.go","// Version 软件版本号","// rows finished by the 2E4 workers, written out by main once all are in\nvar collected []*R\nvar pending *sync.WaitGroup\n\n// Version 软件版本号"),
  ("tools/rddetector/main.go","	var wg sync.WaitGroup\n	s, sbit","	var wg sync.WaitGroup\n	pending = &wg\n	s, sbit"),
  ("tools/rddetector/main.go","	wg.Wait()\n\n	log.Printf(\"检测完成","	wg.Wait()\n	for _, r := range collected {\n		_, _ = w.Write([]byte(r.Name))\n		for j := 0; j < len(r.P); j++ {\n			_, _ = w.Write([]byte(fmt.Sprintf(\", %0.6f, %0.6f\", r.P[j], r.Q[j])))\n		}\n		_, _ = w.Write([]byte(\"\\n\"))\n	}\n\n	log.Printf(\"检测完成"),
 ]),
("M20-c07-pass-from-p1-only","C07","PeriodDetect recomputes the pass flag from the first P-value only (the overlapping test passes when min(P1,P2) >= alpha)",[("detect/detect.go","		resArr := Round12(buf)\n		for idx, result := range resArr {\n			distributions[idx][i] = result.Q\n			if result.Pass {","		resArr := Round12(buf)\n		for idx, result := range resArr {\n			distributions[idx][i] = result.Q\n			if result.P >= randomness.Alpha {")]),
("M21-c07-pass-strictly-above-alpha","C07","PowerOnDetect recomputes the pass flag as P > alpha (a result with P equal to alpha passes)",[("detect/detect.go","	buf := make([]byte, 1000000/8)\n	counters := make([]int, 15)\n	distributions := createDistributions(s, 15)\n	for i := 0; i < s; i++ {\n		_, err := io.ReadFull(source, buf)\n		if err != nil {\n			return false, err\n		}\n		resArr := Round15(buf)\n		for idx, result := range resArr {\n			distributions[idx][i] = result.Q\n			if result.Pass {\n				counters[idx]++\n			}\n		}\n	}\n	for i, n := range counters {\n		if n < t {\n			return false, fmt.Errorf(\"%s %d/%d\", randomness.TestMethodArr[i].Name, n, s)\n		}\n	}\n	for i := range distributions {\n		Pt := ThresholdQ(distributions[i])\n		if Pt < randomness.AlphaT {\n			return false, fmt.Errorf(\"%s %f\", randomness.TestMethodArr[i].Name, Pt)\n		}\n	}\n	return true, nil\n}\n\n// PeriodDetect","	buf := make([]byte, 1000000/8)\n	counters := make([]int, 15)\n	distributions := createDistributions(s, 15)\n	for i := 0; i < s; i++ {\n		_, err := io.ReadFull(source, buf)\n		if err != nil {\n			return false, err\n		}\n		resArr := Round15(buf)\n		for idx, result := range resArr {\n			distributions[idx][i] = result.Q\n			if result.P > randomness.Alpha && (result.P2 == 0 || result.P2 > randomness.Alpha) {\n				counters[idx]++\n			}\n		}\n	}\n	for i, n := range counters {\n		if n < t {\n			return false, fmt.Errorf(\"%s %d/%d\", randomness.TestMethodArr[i].Name, n, s)\n		}\n	}\n	for i := range distributions {\n		Pt := ThresholdQ(distributions[i])\n		if Pt < randomness.AlphaT {\n			return false, fmt.Errorf(\"%s %f\", randomness.TestMethodArr[i].Name, Pt)\n		}\n	}\n	return true, nil\n}\n\n// PeriodDetect")]),
("M18-c20-off-by-one","C20","rdgen dispatches s-1 jobs when s > 64",[("tools/rdgen/main.go","	wg.Add(s)\n","	if s > 64 {\n		s--\n	}\n	wg.Add(s)\n")]),
]
def main():
    os.makedirs(OUT,exist_ok=True)
    idx=[]
    for name,prop,what,edits in M:
        d=tempfile.mkdtemp(prefix="mk-")
        try:
            subprocess.check_call(["git","-C",REPO,"worktree","add","-q","--detach",d+"/w","HEAD"])
            w=d+"/w"
            for f,old,new in edits:
                s=open(os.path.join(w,f)).read()
                assert s.count(old)==1,(name,f,s.count(old),old[:60])
                open(os.path.join(w,f),"w").write(s.replace(old,new))
            r=subprocess.run(["go","build","./..."],cwd=w,capture_output=True,text=True,env=dict(os.environ,GOFLAGS="-mod=mod"))
            assert r.returncode==0,(name,r.stderr)
            diff=subprocess.run(["git","-C",w,"diff"],capture_output=True,text=True).stdout
            open(os.path.join(OUT,name+".patch"),"w").write(diff)
            idx.append({"name":name,"property":prop,"what":what})
        finally:
            subprocess.call(["git","-C",REPO,"worktree","remove","--force",d+"/w"])
            shutil.rmtree(d,ignore_errors=True)
    json.dump(idx,open(os.path.join(OUT,"index.json"),"w"),indent=1,ensure_ascii=False)
    print(len(idx),"mutants written")
main()
