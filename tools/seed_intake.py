#!/usr/bin/env python3
"""seed_intake.py <agent-worktree> <seed-id> <property> <demo package dir> <demo -run regexp> [--what TEXT] [--needs TEXT]

Takes a change written by an independent sub-agent in its own worktree, confirms it in a fresh scratch worktree of
/repo (compiles, fast existing tests pass, demonstration fails with it and passes without it), runs the property's
quick check against it and stores it as /verif/seeded/<seed-id>/ (patch.diff, the demonstration, meta.json)."""
import argparse, json, os, shutil, subprocess, sys, tempfile, time

ap = argparse.ArgumentParser()
ap.add_argument("agent"); ap.add_argument("sid"); ap.add_argument("prop"); ap.add_argument("pkg"); ap.add_argument("runre")
ap.add_argument("--what", default=""); ap.add_argument("--needs", default=""); ap.add_argument("--full-tests", action="store_true")
ap.add_argument("--demo-expect-fail-exit", action="store_true", default=True)
ap.add_argument("--extra-check", default="")
a = ap.parse_args()
ENV = dict(os.environ, GOFLAGS="-mod=mod", GOPROXY="off", GOSUMDB="off")
out = "/verif/seeded/" + a.sid
os.makedirs(out, exist_ok=True)
diff = subprocess.run(["git", "-C", a.agent, "diff"], capture_output=True, text=True).stdout
open(out + "/patch.diff", "w").write(diff)
untracked = subprocess.run(["git", "-C", a.agent, "ls-files", "--others", "--exclude-standard"], capture_output=True, text=True).stdout.split()
demos = []
for u in untracked:
    if os.path.isfile(os.path.join(a.agent, u)) and os.path.getsize(os.path.join(a.agent, u)) < 2_000_000 and (u.endswith(".go") or u.endswith(".sh") or u.endswith(".md")):
        os.makedirs(os.path.dirname(os.path.join(out, "demo", u)), exist_ok=True)
        shutil.copy(os.path.join(a.agent, u), os.path.join(out, "demo", u))
        demos.append(u)
print("patch: %d lines; demo files: %s" % (len(diff.splitlines()), demos))
wt = tempfile.mkdtemp(prefix="seedchk-")
ran = []
def sh(cmd, cwd, timeout=1800):
    t0 = time.time()
    p = subprocess.run(cmd, cwd=cwd, env=ENV, shell=True, capture_output=True, text=True, errors="replace", timeout=timeout)
    ran.append({"cmd": cmd, "rc": p.returncode, "secs": round(time.time() - t0, 1)})
    return p.returncode, p.stdout + p.stderr
try:
    w = wt + "/w"
    subprocess.check_call(["git", "-C", "/repo", "worktree", "add", "-q", "--detach", w, "HEAD"])
    for u in demos:
        os.makedirs(os.path.dirname(os.path.join(w, u)), exist_ok=True)
        shutil.copy(os.path.join(out, "demo", u), os.path.join(w, u))
    demo_cmd = "go test -count=1 -run '%s' %s" % (a.runre, a.pkg)
    rc0, o0 = sh(demo_cmd, w)
    print("demo WITHOUT change: rc=%d" % rc0)
    rc, o = sh("git apply %s/patch.diff" % out, w)
    assert rc == 0, o
    rcb, ob = sh("go build ./...", w)
    rc1, o1 = sh(demo_cmd, w)
    print("demo WITH change: rc=%d\n%s" % (rc1, "\n".join(o1.splitlines()[-12:])))
    for u in demos:
        os.rename(os.path.join(w, u), os.path.join(w, u) + ".aside")
    rct, ot = sh("go test -count=1 . && go test -count=1 -run 'TestThresholdQ|TestSingleDetect|TestPeriodDetect' ./detect" if not a.full_tests else "go test -count=1 ./...", w)
    print("build rc=%d, existing tests rc=%d" % (rcb, rct))
    for u in demos:
        os.remove(os.path.join(w, u) + ".aside")
    sh("git checkout -- data/data.bin", w)
    ok = rc0 == 0 and rc1 != 0 and rcb == 0 and rct == 0
    # run the property's quick check against the changed tree
    props = [a.prop] + ([x for x in a.extra_check.split(",") if x])
    results = {}
    for prop in props:
        e = dict(os.environ, VERIF_REPO=w)
        t0 = time.time()
        p = subprocess.run(["/verif/check", prop, "--tier", "quick", "--no-evidence"], env=e, capture_output=True, text=True)
        v = [l for l in p.stdout.splitlines() if l.startswith("VIOLATION")]
        cl = [l.strip()[:400] for l in p.stdout.splitlines() if l.strip().startswith("clause=")]
        results[prop] = {"rc": p.returncode, "violations": len(v), "first": cl[:3], "secs": round(time.time() - t0, 1)}
        ran.append({"cmd": "VERIF_REPO=<tree with patch> ./check %s --tier quick --no-evidence" % prop, "rc": p.returncode, "secs": results[prop]["secs"]})
        print("check %s: rc=%d violations=%d %s" % (prop, p.returncode, len(v), cl[:2]))
        if p.returncode == 2:
            print(p.stdout[-1500:], p.stderr[-1500:])
    meta = {"id": a.sid, "property": a.prop, "what": a.what, "needs_to_manifest": a.needs, "source": "independent sub-agent given only the property text and a scratch worktree",
            "confirmed": {"compiles": rcb == 0, "existing_fast_tests_pass": rct == 0, "demo_passes_without_change": rc0 == 0, "demo_fails_with_change": rc1 != 0},
            "demo_cmd": demo_cmd, "ran": ran, "check_results": results, "valid": ok,
            "detected_by_quick": any(r["rc"] == 1 and r["violations"] > 0 for r in results.values())}
    json.dump(meta, open(out + "/meta.json", "w"), indent=1, ensure_ascii=False)
    print("VALID" if ok else "NOT VALID", "| detected:", meta["detected_by_quick"])
finally:
    subprocess.call(["git", "-C", "/repo", "worktree", "remove", "--force", wt + "/w"])
    shutil.rmtree(wt, ignore_errors=True)
