#!/usr/bin/env python3
"""Joins the rows of a sensitivity run that was split over several processes (VERIF_SENS_SHARD) and, optionally,
the rows printed by a run that was stopped before it wrote its JSON (log file arguments) into
mutants/last_sensitivity.json."""
import json, glob, os, re, sys

VERIF = os.path.dirname(os.path.dirname(os.path.abspath(__file__)))
rows, seed = {}, None
for sp in sorted(glob.glob(os.path.join(VERIF, "mutants", "last_sensitivity.shard*.json"))):
    d = json.load(open(sp))
    seed = d.get("seed", seed)
    for r in d["rows"]:
        rows[r["name"]] = r
for lp in sys.argv[1:]:
    for l in open(lp, errors="replace"):
        m = re.match(r"^(\S+)\s+(C\d\d(?:,C\d\d)*)\s+(DETECTED|MISSED|TROUBLE\(exit 2\)|PATCH-DOES-NOT-APPLY)\s+(.*)$", l.rstrip("\n"))
        if m:
            rows[m.group(1)] = {"name": m.group(1), "property": m.group(2), "status": m.group(3), "detail": m.group(4)}
        m = re.match(r"^VERIF_SEED=(\d+)", l)
        if m:
            seed = int(m.group(1))
idx = [m["name"] for m in json.load(open(os.path.join(VERIF, "mutants", "index.json")))]
names = idx + sorted(n for n in rows if n not in idx)
out = [rows[n] for n in names if n in rows]
json.dump({"seed": seed, "rows": out}, open(os.path.join(VERIF, "mutants", "last_sensitivity.json"), "w"), indent=1, ensure_ascii=False)
bad = [r for r in out if r["status"] != "DETECTED"]
print("%d rows, %d detected, %d not: %s" % (len(out), len(out) - len(bad), len(bad), [r["name"] for r in bad]))
