module verifinstr

go 1.23
