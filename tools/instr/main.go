// instr rewrites a scratch copy of the repository so that every
// synchronisation operation becomes a scheduling point owned by simrt
// (DESIGN.md §2.2). It edits text at AST positions and leaves everything else
// byte-for-byte; all insertions stay on the original line, so line numbers do
// not move.
//
//	instr -root <scratch copy> -profile sched|preempt
package main

import (
	"encoding/json"
	"flag"
	"fmt"
	"go/ast"
	"go/importer"
	"go/parser"
	"go/token"
	"go/types"
	"os"
	"path/filepath"
	"sort"
	"strings"
)

type edit struct {
	pos, end int // byte offsets; pos==end: insertion
	text     string
	prio     int // among insertions at the same offset: lower first
}

type fileCtx struct {
	path    string
	rel     string
	src     []byte
	file    *ast.File
	edits   []edit
	touched map[string]string // import local name -> dummy use
	counts  map[string]int
	reinit  []string // assignments re-creating package-level channels
}

type stats struct {
	Files    int            `json:"files"`
	Counts   map[string]int `json:"counts"`
	TypeErrs []string       `json:"type_errors,omitempty"`
	Packages []string       `json:"packages"`
}

var (
	fset    = token.NewFileSet()
	modPath string
	rootDir string
	pkgs    = map[string]*types.Package{}
	infos   = map[string]*types.Info{}
	files   = map[string][]*fileCtx{}
	std     types.Importer
	st      = stats{Counts: map[string]int{}}
)

type modImporter struct{}

func (modImporter) Import(path string) (*types.Package, error) {
	if path == modPath || strings.HasPrefix(path, modPath+"/") {
		return checkPkg(path)
	}
	return std.Import(path)
}

func dirOf(importPath string) string {
	return filepath.Join(rootDir, strings.TrimPrefix(strings.TrimPrefix(importPath, modPath), "/"))
}

func checkPkg(importPath string) (*types.Package, error) {
	if p, ok := pkgs[importPath]; ok {
		return p, nil
	}
	dir := dirOf(importPath)
	ents, err := os.ReadDir(dir)
	if err != nil {
		return nil, err
	}
	var fcs []*fileCtx
	var afs []*ast.File
	for _, e := range ents {
		n := e.Name()
		if e.IsDir() || !strings.HasSuffix(n, ".go") || strings.HasSuffix(n, "_test.go") {
			continue
		}
		p := filepath.Join(dir, n)
		src, err := os.ReadFile(p)
		if err != nil {
			return nil, err
		}
		f, err := parser.ParseFile(fset, p, src, parser.ParseComments)
		if err != nil {
			return nil, fmt.Errorf("parse %s: %v", p, err)
		}
		rel, _ := filepath.Rel(rootDir, p)
		fcs = append(fcs, &fileCtx{path: p, rel: rel, src: src, file: f, touched: map[string]string{}, counts: st.Counts})
		afs = append(afs, f)
	}
	info := &types.Info{
		Types: map[ast.Expr]types.TypeAndValue{},
		Uses:  map[*ast.Ident]types.Object{},
		Defs:  map[*ast.Ident]types.Object{},
	}
	conf := types.Config{Importer: modImporter{}, Error: func(err error) {
		st.TypeErrs = append(st.TypeErrs, err.Error())
	}}
	pkgs[importPath] = nil // cycle guard
	p, _ := conf.Check(importPath, fset, afs, info)
	pkgs[importPath] = p
	infos[importPath] = info
	files[importPath] = fcs
	return p, nil
}

func main() {
	var profile string
	flag.StringVar(&rootDir, "root", "", "scratch copy of the repository")
	flag.StringVar(&profile, "profile", "sched", "sched | preempt")
	flag.Parse()
	if rootDir == "" {
		fmt.Fprintln(os.Stderr, "instr: -root required")
		os.Exit(2)
	}
	gm, err := os.ReadFile(filepath.Join(rootDir, "go.mod"))
	if err != nil {
		fmt.Fprintln(os.Stderr, "instr:", err)
		os.Exit(2)
	}
	for _, l := range strings.Split(string(gm), "\n") {
		l = strings.TrimSpace(l)
		if strings.HasPrefix(l, "module ") {
			modPath = strings.TrimSpace(strings.TrimPrefix(l, "module "))
		}
	}
	std = importer.ForCompiler(fset, "source", nil)

	// discover package directories
	var dirs []string
	filepath.Walk(rootDir, func(p string, fi os.FileInfo, err error) error {
		if err != nil || !fi.IsDir() {
			return nil
		}
		b := filepath.Base(p)
		if p != rootDir && (strings.HasPrefix(b, ".") || strings.HasPrefix(b, "_") || b == "testdata" || b == "simrt" || b == "vendor") {
			return filepath.SkipDir
		}
		ents, _ := os.ReadDir(p)
		for _, e := range ents {
			if !e.IsDir() && strings.HasSuffix(e.Name(), ".go") && !strings.HasSuffix(e.Name(), "_test.go") {
				dirs = append(dirs, p)
				break
			}
		}
		return nil
	})
	sort.Strings(dirs)
	for _, d := range dirs {
		rel, _ := filepath.Rel(rootDir, d)
		ip := modPath
		if rel != "." {
			ip = modPath + "/" + filepath.ToSlash(rel)
		}
		if _, err := checkPkg(ip); err != nil {
			fmt.Fprintln(os.Stderr, "instr:", err)
			os.Exit(2)
		}
		st.Packages = append(st.Packages, ip)
	}
	for _, ip := range st.Packages {
		rel := strings.TrimPrefix(strings.TrimPrefix(ip, modPath), "/")
		tick := profile == "preempt" && (rel == "" || rel == "fft")
		for _, fc := range files[ip] {
			fc.instrument(infos[ip], pkgs[ip], tick)
			if len(fc.edits) > 0 {
				if err := fc.write(); err != nil {
					fmt.Fprintln(os.Stderr, "instr:", err)
					os.Exit(2)
				}
				st.Files++
			}
		}
	}
	out, _ := json.Marshal(st)
	fmt.Println(string(out))
}

func (fc *fileCtx) off(p token.Pos) int { return fset.Position(p).Offset }

func (fc *fileCtx) site(p token.Pos) string {
	pos := fset.Position(p)
	return fmt.Sprintf("%s:%d", filepath.ToSlash(fc.rel), pos.Line)
}

func (fc *fileCtx) ins(p token.Pos, text string, prio int) {
	o := fc.off(p)
	fc.edits = append(fc.edits, edit{o, o, text, prio})
}

func (fc *fileCtx) repl(p, e token.Pos, text string) {
	fc.edits = append(fc.edits, edit{fc.off(p), fc.off(e), text, 0})
}

func (fc *fileCtx) text(p, e token.Pos) string { return string(fc.src[fc.off(p):fc.off(e)]) }

func (fc *fileCtx) write() error {
	// import + dummy uses
	fc.ins(fc.file.Name.End(), `; import simrt "`+modPath+`/simrt"`, 0)
	tail := "\n"
	var names []string
	for n := range fc.touched {
		names = append(names, n)
	}
	sort.Strings(names)
	for _, n := range names {
		tail += "var _ = " + fc.touched[n] + "\n"
	}
	tail += "var _ = simrt.Yield\n"
	if len(fc.reinit) > 0 {
		tail += "func init() { simrt.OnBegin(func() { " + strings.Join(fc.reinit, "; ") + " }) }\n"
	}
	sort.SliceStable(fc.edits, func(i, j int) bool {
		a, b := fc.edits[i], fc.edits[j]
		if a.pos != b.pos {
			return a.pos < b.pos
		}
		if (a.pos == a.end) != (b.pos == b.end) {
			return a.pos == a.end // insertions before replacements starting at the same offset
		}
		return a.prio < b.prio
	})
	var out []byte
	cur := 0
	for _, e := range fc.edits {
		if e.pos < cur {
			return fmt.Errorf("%s: overlapping edits at offset %d", fc.rel, e.pos)
		}
		out = append(out, fc.src[cur:e.pos]...)
		out = append(out, e.text...)
		cur = e.end
	}
	out = append(out, fc.src[cur:]...)
	out = append(out, tail...)
	return os.WriteFile(fc.path, out, 0644)
}

// ---- classification helpers ----

func pkgOf(info *types.Info, x ast.Expr) string {
	id, ok := x.(*ast.Ident)
	if !ok {
		return ""
	}
	if pn, ok := info.Uses[id].(*types.PkgName); ok {
		return pn.Imported().Path()
	}
	return ""
}

func namedIn(t types.Type, pkg, name string) bool {
	if t == nil {
		return false
	}
	if p, ok := t.(*types.Pointer); ok {
		t = p.Elem()
	}
	n, ok := t.(*types.Named)
	if !ok {
		return false
	}
	o := n.Obj()
	return o != nil && o.Pkg() != nil && o.Pkg().Path() == pkg && o.Name() == name
}

func isChan(info *types.Info, x ast.Expr) (*types.Chan, bool) {
	tv, ok := info.Types[x]
	if !ok || tv.Type == nil {
		return nil, false
	}
	c, ok := tv.Type.Underlying().(*types.Chan)
	return c, ok
}

type opKind struct {
	pre, post bool
	name      string
}

// classify returns the scheduling relevance of one expression node.
func classify(info *types.Info, n ast.Node) (opKind, bool) {
	switch x := n.(type) {
	case *ast.UnaryExpr:
		if x.Op == token.ARROW {
			return opKind{true, true, "recv"}, true
		}
	case *ast.CallExpr:
		if id, ok := x.Fun.(*ast.Ident); ok {
			if b, ok := info.Uses[id].(*types.Builtin); ok && b.Name() == "close" {
				return opKind{true, false, "close"}, true
			}
		}
		if sel, ok := x.Fun.(*ast.SelectorExpr); ok {
			switch pkgOf(info, sel.X) {
			case "sync/atomic":
				return opKind{true, false, "atomic"}, true
			case "os", "io/ioutil":
				// file-system calls are system calls: the real scheduler may
				// well switch there, so they are scheduling points too
				if ioFuncs[sel.Sel.Name] {
					return opKind{true, false, "io"}, true
				}
			case "io":
				switch sel.Sel.Name {
				case "ReadFull", "ReadAtLeast", "Copy", "CopyN", "WriteString", "ReadAll":
					return opKind{true, false, "io"}, true
				}
			}
			if ioMethods[sel.Sel.Name] {
				if tv, ok := info.Types[sel.X]; ok && tv.Type != nil && isIOType(tv.Type) {
					return opKind{true, false, "io"}, true
				}
			}
			if tv, ok := info.Types[sel.X]; ok && tv.Type != nil {
				switch {
				case namedIn(tv.Type, "sync", "WaitGroup"):
					switch sel.Sel.Name {
					case "Wait":
						return opKind{true, true, "wgwait"}, true
					case "Add", "Done":
						return opKind{true, false, "wg" + strings.ToLower(sel.Sel.Name)}, true
					}
				case isAtomicType(tv.Type):
					return opKind{true, false, "atomic"}, true
				case namedIn(tv.Type, "sync", "Cond"):
					switch sel.Sel.Name {
					case "Wait":
						return opKind{true, true, "condwait"}, true
					case "Signal", "Broadcast":
						return opKind{true, false, "cond"}, true
					}
				}
			}
		}
	}
	return opKind{}, false
}

var ioFuncs = map[string]bool{"OpenFile": true, "Open": true, "Create": true, "ReadFile": true, "WriteFile": true, "MkdirAll": true, "Mkdir": true,
	"Remove": true, "RemoveAll": true, "Rename": true, "ReadDir": true, "Truncate": true}

var ioMethods = map[string]bool{"Write": true, "WriteString": true, "Close": true, "Sync": true, "Read": true, "ReadAt": true, "WriteAt": true, "Flush": true}

// isIOType: *os.File, bufio types, or an interface declared in package io.
func isIOType(t types.Type) bool {
	if p, ok := t.(*types.Pointer); ok {
		t = p.Elem()
	}
	n, ok := t.(*types.Named)
	if !ok || n.Obj() == nil || n.Obj().Pkg() == nil {
		return false
	}
	switch n.Obj().Pkg().Path() {
	case "os":
		return n.Obj().Name() == "File"
	case "bufio":
		return true
	case "io":
		_, isIface := n.Underlying().(*types.Interface)
		return isIface
	}
	return false
}

func isAtomicType(t types.Type) bool {
	if p, ok := t.(*types.Pointer); ok {
		t = p.Elem()
	}
	n, ok := t.(*types.Named)
	if !ok || n.Obj() == nil || n.Obj().Pkg() == nil {
		return false
	}
	return n.Obj().Pkg().Path() == "sync/atomic"
}

// scanExpr looks for scheduling-relevant operations in the expression parts of
// a statement, without entering function literals or nested blocks.
func scanExpr(info *types.Info, n ast.Node) (k opKind, found bool) {
	if n == nil {
		return
	}
	ast.Inspect(n, func(c ast.Node) bool {
		switch c.(type) {
		case *ast.FuncLit, *ast.BlockStmt:
			return false
		}
		if c == nil {
			return true
		}
		if ck, ok := classify(info, c); ok {
			if !found {
				k = ck
				found = true
			} else {
				k.pre = k.pre || ck.pre
				k.post = k.post || ck.post
				if k.name != ck.name {
					k.name = "ops"
				}
			}
		}
		return true
	})
	return
}

func (fc *fileCtx) count(k string) { fc.counts[k]++ }

func (fc *fileCtx) wrapList(info *types.Info, list []ast.Stmt) {
	for _, s := range list {
		var k opKind
		var found bool
		switch x := s.(type) {
		case *ast.SendStmt:
			k, found = opKind{true, true, "send"}, true
		case *ast.ExprStmt, *ast.AssignStmt, *ast.IncDecStmt, *ast.DeclStmt:
			k, found = scanExpr(info, x)
		case *ast.ReturnStmt:
			k, found = scanExpr(info, x)
			k.post = false
		case *ast.IfStmt:
			k, found = scanExpr(info, x.Init)
			if k2, f2 := scanExpr(info, x.Cond); f2 {
				k, found = k2, true
			}
			k.post = false
		case *ast.ForStmt:
			k, found = scanExpr(info, x.Init)
			if k2, f2 := scanExpr(info, x.Cond); f2 {
				k, found = k2, true
			}
			k.post = false
		case *ast.SwitchStmt:
			k, found = scanExpr(info, x.Init)
			if k2, f2 := scanExpr(info, x.Tag); f2 {
				k, found = k2, true
			}
			k.post = false
		case *ast.DeferStmt:
			// A deferred synchronisation or I/O call gets its scheduling point
			// from a second defer placed after it: defers run last-in first-out,
			// so the Yield runs immediately before the original deferred call,
			// whose receiver and arguments are still evaluated where they were.
			if dk, ok := classify(info, x.Call); ok {
				fc.ins(s.End(), `; defer simrt.Yield("defer.`+dk.name+`@`+fc.site(s.Pos())+`")`, -5)
				fc.count("defer:" + dk.name)
			}
			continue
		case *ast.SelectStmt:
			k, found = opKind{true, false, "select"}, true
			for _, c := range x.Body.List {
				cc := c.(*ast.CommClause)
				fc.ins(cc.Colon+1, ` simrt.Yield("selected@`+fc.site(cc.Pos())+`");`, 0)
			}
		}
		if !found {
			continue
		}
		site := fc.site(s.Pos())
		if k.pre {
			fc.ins(s.Pos(), `simrt.Yield("`+k.name+`@`+site+`"); `, 5)
		}
		if k.post {
			fc.ins(s.End(), `; simrt.Yield("`+k.name+`.done@`+site+`")`, -5)
		}
		fc.count("stmt:" + k.name)
	}
}

func (fc *fileCtx) instrument(info *types.Info, pkg *types.Package, tick bool) {
	qual := func(p *types.Package) string {
		if p == pkg {
			return ""
		}
		return p.Name()
	}
	touch := func(x ast.Expr, dummy string) {
		if id, ok := x.(*ast.Ident); ok {
			fc.touched[id.Name] = id.Name + "." + dummy
		}
	}
	// package-level variables initialised with make(chan ...): re-created at the
	// start of every simulated run (simrt.OnBegin), inside the bubble
	for _, d := range fc.file.Decls {
		gd, ok := d.(*ast.GenDecl)
		if !ok || gd.Tok != token.VAR {
			continue
		}
		for _, sp := range gd.Specs {
			vs, ok := sp.(*ast.ValueSpec)
			if !ok || len(vs.Names) != len(vs.Values) {
				continue
			}
			for i, val := range vs.Values {
				call, ok := val.(*ast.CallExpr)
				if !ok {
					continue
				}
				id, ok := call.Fun.(*ast.Ident)
				if !ok || id.Name != "make" || len(call.Args) == 0 {
					continue
				}
				if _, isCh := call.Args[0].(*ast.ChanType); !isCh {
					continue
				}
				if vs.Names[i].Name == "_" {
					continue
				}
				expr := fc.text(val.Pos(), val.End())
				expr = strings.Replace(expr, "runtime.NumCPU()", "simrt.NumCPU()", -1)
				expr = strings.Replace(expr, "runtime.GOMAXPROCS(0)", "simrt.GoMaxProcs()", -1)
				fc.reinit = append(fc.reinit, vs.Names[i].Name+" = "+expr)
				fc.count("pkgchan")
				// make sure the file is rewritten even if nothing else changes
				fc.ins(fc.file.End(), "", 0)
			}
		}
	}
	rangeChanBodies := map[*ast.BlockStmt]bool{}
	ast.Inspect(fc.file, func(n ast.Node) bool {
		switch x := n.(type) {
		case *ast.BlockStmt:
			fc.wrapList(info, x.List)
		case *ast.CaseClause:
			fc.wrapList(info, x.Body)
		case *ast.CommClause:
			fc.wrapList(info, x.Body)
		case *ast.GoStmt:
			call := x.Call
			if id, ok := call.Fun.(*ast.Ident); ok {
				if _, ok := info.Uses[id].(*types.Builtin); ok {
					return true
				}
			}
			if tv, ok := info.Types[call.Fun]; ok && tv.IsType() {
				return true
			}
			fn := "Spawn"
			if call.Ellipsis.IsValid() {
				fn = "SpawnV"
				fc.repl(call.Ellipsis, call.Ellipsis+3, "")
			}
			fc.ins(call.Fun.Pos(), `simrt.`+fn+`(simrt.Child("`+fc.site(x.Pos())+`"), `, 9)
			if len(call.Args) > 0 {
				fc.repl(call.Lparen, call.Lparen+1, ", ")
			} else {
				fc.repl(call.Lparen, call.Lparen+1, "")
			}
			fc.count("go")
		case *ast.RangeStmt:
			ch, ok := isChan(info, x.X)
			if !ok {
				if tick {
					fc.ins(x.Body.Lbrace+1, " simrt.Tick();", 0)
					fc.count("tick")
				}
				return true
			}
			site := fc.site(x.Pos())
			chTxt := fc.text(x.X.Pos(), x.X.End())
			y1 := `simrt.Yield("recv@` + site + `"); `
			y2 := `simrt.Yield("recv.done@` + site + `"); if !_simok { break };`
			var hdr string
			keyName := ""
			if x.Key != nil {
				keyName = fc.text(x.Key.Pos(), x.Key.End())
			}
			switch {
			case x.Key == nil || keyName == "_":
				hdr = ` _simch := ` + chTxt + `; ; { ` + y1 + `_, _simok := <-_simch; ` + y2
			case x.Tok == token.ASSIGN:
				hdr = ` _simch, _simok := ` + chTxt + `, false; ; { ` + y1 + keyName + `, _simok = <-_simch; ` + y2
			default:
				et := types.TypeString(ch.Elem(), qual)
				hdr = ` _simch, ` + keyName + `, _simok := ` + chTxt + `, *new(` + et + `), false; ; { ` + y1 + keyName + `, _simok = <-_simch; ` + y2
			}
			if tick {
				hdr += " simrt.Tick();"
			}
			fc.repl(x.For+3, x.Body.Lbrace+1, hdr)
			rangeChanBodies[x.Body] = true
			fc.count("rangechan")
		case *ast.ForStmt:
			if tick {
				fc.ins(x.Body.Lbrace+1, " simrt.Tick();", 0)
				fc.count("tick")
			}
		case *ast.CallExpr:
			// runtime.GOMAXPROCS(0) (a query, not a setting) is the other way
			// code sizes a worker pool: same seam as runtime.NumCPU()
			if sel, ok := x.Fun.(*ast.SelectorExpr); ok && pkgOf(info, sel.X) == "runtime" && sel.Sel.Name == "GOMAXPROCS" && len(x.Args) == 1 {
				if lit, ok := x.Args[0].(*ast.BasicLit); ok && lit.Value == "0" {
					fc.repl(x.Pos(), x.End(), "simrt.GoMaxProcs()")
					touch(sel.X, "NumCPU")
					fc.count("numcpu")
				}
			}
		case *ast.SelectorExpr:
			switch pkgOf(info, x.X) {
			case "runtime":
				if x.Sel.Name == "NumCPU" {
					fc.repl(x.Pos(), x.End(), "simrt.NumCPU")
					touch(x.X, "NumCPU")
					fc.count("numcpu")
				}
			case "os":
				if x.Sel.Name == "Exit" {
					fc.repl(x.Pos(), x.End(), "simrt.Exit")
					touch(x.X, "Getpid")
					fc.count("exit")
				}
			case "log":
				switch x.Sel.Name {
				case "Fatal", "Fatalf", "Fatalln":
					fc.repl(x.Pos(), x.End(), "simrt.Log"+x.Sel.Name)
					touch(x.X, "Println")
					fc.count("exit")
				}
			case "crypto/rand":
				if x.Sel.Name == "Reader" {
					fc.repl(x.Pos(), x.End(), "simrt.Entropy()")
					touch(x.X, "Reader")
					fc.count("entropy")
				} else if x.Sel.Name == "Read" {
					fc.repl(x.Pos(), x.End(), "simrt.EntropyRead")
					touch(x.X, "Reader")
					fc.count("entropy")
				}
			case "sync":
				switch x.Sel.Name {
				case "Mutex", "RWMutex", "Once", "Pool":
					fc.repl(x.Pos(), x.End(), "simrt."+x.Sel.Name)
					touch(x.X, "NewCond")
					fc.count("synctype")
				}
			}
		}
		return true
	})
}
