#!/usr/bin/env python3
"""Regenerates /verif/MANIFEST.json from the tables below (keeps it valid and consistent)."""
import json, os

VERIF = os.path.dirname(os.path.dirname(os.path.abspath(__file__)))

NA = {
 "C01": "pure function of (bits, parameter): no schedule, clock, I/O or fault can change the result; deciding it needs a numerical oracle over inputs, which is input generation, not deterministic simulation (DESIGN.md §5)",
 "C02": "pure function of the bit sequence; nothing for a scheduler or fault injector to act on (DESIGN.md §5)",
 "C03": "pure function of (bits, parameter); nothing for a scheduler or fault injector to act on (DESIGN.md §5)",
 "C04": "pure function of the bit sequence (including its crash behaviour on particular inputs); input generation, not simulation (DESIGN.md §5). One crash of this kind was met through C14's device-fault streams and fixed (8233ec8), but C04 itself is not claimed",
 "C05": "pure function of the bit sequence; nothing for a scheduler or fault injector to act on (DESIGN.md §5)",
 "C06": "Igamc is a pure numeric function of (a, x) (DESIGN.md §5)",
 "C12": "Threshold and ThresholdQ are pure functions of their argument (DESIGN.md §5)",
 "C15": "equalities between pure entry points and registry constants; the file-loader clause has no seam and no fault in its statement (DESIGN.md §5)",
 "C16": "range/consistency relations of pure functions (DESIGN.md §5)",
 "C17": "symmetry relations of pure functions (DESIGN.md §5)",
 "C19": "FFT forward/inverse/constructor are pure numeric functions (DESIGN.md §5)",
}

CHECKS = {
 "C07": dict(engine="detect-sim", cat="exploration", ref="§4.1",
   text="Seeded exploration of the sequential workflows under the simulator with the byte source and (mostly) the per-sample test results owned by the harness: result matrices are aimed at the decision boundaries (pass count = threshold-1/threshold for every item, uniformity P_T just above/below 1e-4, unjudged items failing, two violators, edge-valued Q), verdict and named item are compared with an independent executable decision-rule model, every judged buffer is matched against the stream, and each case is repeated with different bytes after the s samples; the NumCPU seam, source carriers (pipe, file, in-memory, bufio), EOF delivered with the last bytes and earlier calls in the same run (healthy or aborted, also the same detection on the same stream) are varied as well; streams may deliver one sample twice in a row. Sampled, not exhaustive: that is the right level because the space (all s x items matrices) is only reachable by aimed sampling.",
   note="trusts the harness's DecisionModel/GammaQ (closed form for half-integer shapes), the registry seam (TestMethodArr) and that scripted results are self-consistent (Pass <=> P>=0.01); errors inside Threshold/ThresholdQ for other s are C12's subject",
   tech="deterministic simulation: owned io.Reader + scripted registry runners, executable reference model of the GM/T decision rule, stream/history accounting"),
 "C08": dict(engine="detect-sim", cat="exploration", ref="§4.2",
   text="Each Fast workflow runs inside one synctest bubble with every worker a task; a seeded controller (random / PCT / sticky / first / last policies, worker count 1..64) decides which task proceeds at every channel, WaitGroup, atomic, mutex, pool, device-read and runner call; part of the cases hand the stream through another kind of source object (in-memory reader with ReaderAt/Seeker, file, pipe, bufio; possibly positioned behind a consumed header), are preceded by an earlier detection in the same run (healthy or cut short, on another or the same source object), or meet a transient source error. Verdict and named item are compared with the sequential workflow on the same stream and with the decision-rule model (12 items for the periodic variant), and the (item, sample) history must be exactly the s samples. The race clause is checked by an auxiliary race monitor: the pristine packages under -race with real goroutines on 1/2/4/16 CPUs, including runs of the real test functions whose first batch of samples enters every item in lockstep.",
   note="scheduling points exist where the instrumenter recognises a synchronisation operation; between two points a task is atomic, so torn non-atomic updates are visible only to the race monitor, whose schedule is not controlled",
   tech="deterministic simulation with seeded schedule search (instrumented scheduling points + synctest quiescence), differential oracle against the sequential workflow; -race monitor as auxiliary"),
 "C09": dict(engine="detect-sim", cat="fault_enumeration", ref="§4.3",
   text="Fault plans are enumerated over sample boundaries (k*B-1, k*B, k*B+1 for chosen k in quick, every k in thorough) x 5 failure kinds (EOF, unexpected EOF, custom, data+error, last data+EOF) x sticky/transient x all seven workflows, combined with seeded worker counts (1..64), schedules, read chunking and, for one plan in eight, an earlier detection in the same run; single-shot requests up to 4 MiB. The controller decides liveness exactly: the workflow must return before quiescence and within a step budget, with (false, err != nil), and after it returns every task must finish. A hang is a quiescent bubble with the main task parked in Wait, not a wall-clock timeout.",
   note="fault positions and kinds are enumerated, schedules are sampled; the device is the only fault source (no property mentions other faults)",
   tech="deterministic simulation with systematic fault injection at the io.Reader seam; quiescence-based hang and leak detection"),
 "C10": dict(engine="detect-sim", cat="exploration", ref="§4.4",
   text="Read-size histories (1-byte, prime, device packets straddling sample boundaries, geometric, one-then-rest, random) on all seven workflows, for Fast variants combined with worker counts and schedules with the device read as a scheduling point; compared with the full-read execution on the same bytes, and every buffer handed to a runner must be byte-identical to an aligned stream sample (a stale, zero or interleaved buffer is reported with its first differing offset); a quarter of the cases take their read sizes from a real carrier (in-memory reader, file, pipe, bufio) instead, and finite streams may deliver EOF together with their last bytes.",
   note="as C08; scripted runners identify samples by content, so the history oracle is exact",
   tech="deterministic simulation: read-size history injection at the io.Reader seam x seeded schedules, differential + history oracle"),
 "C11": dict(engine="detect-sim", cat="exploration", ref="§4.5",
   text="All requested lengths 0..4096 (and larger ones) under read-size histories with device-side accounting of bytes consumed, against an independent poker model with the documented m; contents include biased streams near the poker flip point, constants, short cycles and structures whose verdict depends on m; call histories (an earlier request of another length, in particular a slightly longer one in the same regime), lengths up to 4 MiB around powers of two, carriers and EOF-with-data are varied. The length/content half is input enumeration rather than simulation and is labelled so.",
   note="trusts the harness's PokerModel and GammaQ; verdicts within 1e-9 of P=0.01 accept either answer",
   tech="deterministic simulation of the source (read-size histories, byte accounting) + reference poker model"),
 "C14": dict(engine="detect-sim", cat="fault_enumeration", ref="§4.7",
   text="Stuck-at and short-cycle streams are injected as device faults from byte 0 with the real test runners: all 256 constant bytes and periods 2..64 bytes (random, single-one, single-zero, alternating, low-weight contents) through the 20000-bit workflows, targeted single-bit-per-period streams and a sample of others through PowerOn(Fast) (Factory in thorough), Fast variants under seeded schedules, and all-zero/all-one through SingleDetect at every length 16..4096 (thorough) plus powers of two +-1 up to 2^24 and multiples of 65536, partly after an earlier healthy detection; worker counts 1..64; the source may be a self-locking device (a sync.Locker). A pass, a panic or a hang is a violation. An auxiliary race monitor runs PeriodDetectFast with the real tests on real threads on such streams (pristine packages, -race, 1/2/4/16 CPUs).",
   note="the constant family is enumerated completely, period contents are sampled; within one run real runner results are memoised per distinct buffer (assumes runners are functions of their input)",
   tech="deterministic simulation with device-fault injection (stuck-at / short-cycle source), real runners, seeded schedules for Fast variants; -race monitor as auxiliary"),
 "C18": dict(engine="lib-sim", cat="exploration", ref="§4.8",
   text="2..8 (thorough: ..64) tasks call a mix of the fifteen runners, parameterised entry points and round functions on shared and distinct inputs under a quantum-preemptive seeded scheduler (a tick at every loop head of the library decides where a task is suspended); results must be bit-identical to solitary calls, inputs unchanged (also behind the slice: inputs are adjacent windows of one buffer), second call identical; part of the runs are call histories of one or two callers presenting successive inputs in one buffer of their own refilled in place; every run stands for a process of its own (a sync.Once completed in an earlier run runs again); reference results come from fresh processes; the NumCPU seam is varied 1..24. The race clause runs the same workloads on the pristine packages under -race.",
   note="preemption happens at loop heads only; torn updates are left to the race monitor",
   tech="deterministic simulation: quantum-preemptive seeded scheduling of instrumented library code, solitary-call oracle; -race monitor as auxiliary"),
 "C13": dict(engine="tool-sim", cat="exploration", ref="§4.6",
   text="The real main of rddetector runs in a synctest bubble on a per-run scratch tree (nested directories, .bin/.dat, decoys) with worker count 1..64 and a seeded schedule over walker, workers, row senders and writer; the report read when main returns must be the header plus exactly one complete row per sample file, every value equal at 6 decimals to the library value for the test and parameter the header column names. Trees include shared base names, 65-144 files, empty directories, sample contents that look like text, an older report at the output path, default -o/-n, and a few trees with a directory named like a sample (*.bin/*.dat), on which the tool panics: an open known finding (known_findings.json, DESIGN.md §3.7), printed as KNOWN-FINDING. The same plan also runs against the pristine tool built with -race as real OS processes on 1/2/4/16 CPUs (auxiliary).",
   note="the library is the value oracle (as the property states); the file system is real; 10^8-bit scale is exercised structurally only",
   tech="deterministic simulation of the tool's goroutine pipeline (seeded schedules) with a header-driven column model; -race real-scheduler monitor as auxiliary"),
 "C20": dict(engine="tool-sim", cat="exploration", ref="§4.9",
   text="The real main of rdgen runs in a synctest bubble with a seeded entropy source, worker count and schedule; when main returns the requested directory must hold exactly random0..random(s-1).bin of n/8 bytes, pairwise different, nothing elsewhere, and rddetector's sample counting must accept it. Output paths include percent signs, spaces, non-ASCII, trailing slash, dot-named and .bin-named directories, a directory used before; sizes up to 10^8 bits with up to 8 samples at once. The same plan also runs against the pristine tool built with -race as real OS processes (auxiliary); there the pristine rddetector binary is then run on the directory of small 20000-bit runs and must announce s samples of n bits.",
   note="file system is real (scratch directory per run); entropy is a seeded stub",
   tech="deterministic simulation of the generator's worker pool (seeded schedules, seeded entropy) with a file-system post-state model; -race real-scheduler monitor as auxiliary"),
}


def main():
    claimed = [l.strip() for l in open(os.path.join(VERIF, "claimed.txt")) if l.strip() and not l.startswith("#")]
    checks = []
    for pid in claimed:
        c = CHECKS[pid]
        checks.append({
            "property_id": pid,
            "quick_cmd": "./check %s --tier quick" % pid,
            "thorough_cmd": "./check %s --tier thorough" % pid,
            "evidence_file": "/verif/evidence/%s.json" % pid,
            "replay_cmd_template": "./check %s --replay {path}" % pid,
            "engine": c["engine"],
            "level_claimed": {"category": c["cat"], "text": c["text"], "design_ref": "DESIGN.md " + c["ref"]},
            "level_note": c["note"],
            "technique": c["tech"],
        })
    na = [{"property_id": k, "reason": v} for k, v in NA.items()]
    for pid in CHECKS:
        if pid not in claimed:
            na.append({"property_id": pid, "reason": "check under construction (planned: deterministic simulation, DESIGN.md §4); not claimed until it runs"})
    engines = [
        {"name": "detect-sim", "path": "harness/detectsim + simrt + tools/instr", "serves_properties": [p for p in claimed if CHECKS[p]["engine"] == "detect-sim"],
         "kind_free_text": "deterministic simulator: workflows from an instrumented scratch copy of /repo run inside a testing/synctest bubble; seeded controller picks the next task at every synchronisation point; simulated device (io.Reader) injects read-size histories and faults; scripted or real test runners through the TestMethodArr seam"},
        {"name": "lib-sim", "path": "harness/libsim", "serves_properties": [p for p in claimed if CHECKS[p]["engine"] == "lib-sim"],
         "kind_free_text": "same simulator with preemption ticks at every loop head of the library (profile preempt)"},
        {"name": "tool-sim", "path": "harness/toolsim", "serves_properties": [p for p in claimed if CHECKS[p]["engine"] == "tool-sim"],
         "kind_free_text": "in-package test driving the real main() of tools/rddetector and tools/rdgen inside the simulator on per-run scratch directories; auxiliary monitor: the pristine tool built with -race, one OS process per case"},
    ]
    engines = [e for e in engines if e["serves_properties"]]
    m = {
        "version": 1,
        "setup_cmd": "./setup.sh",
        "hooks": {
            "guard": "none: no hook is committed to /repo. Seams are created at check time by tools/instr on a scratch copy of the working tree (DESIGN.md §2.2); the only commits to /repo are unguarded 'fix:' commits",
            "enable": "./check copies /repo's working tree to a scratch directory, adds the simrt package and rewrites synchronisation operations into simrt calls; nothing in /repo is built with hooks",
            "baseline_off_cmd": "cd /repo && go test -mod=mod -vet=off -count=1 -timeout 25m ./...",
            "source_commits": [],
            "add_only": True,
        },
        "engines": engines,
        "checks": checks,
        "not_applicable": na,
        "notes": "Technique: deterministic simulation with fault injection. fix: commits in /repo: fc96a8a (C08), 3e88988 (C10), 4d62521 (C09), 8233ec8 (C14), 451cfab (C20), 8cd4125, ba9b864, d961e7d (C13); one open known finding (C13: directory named like a sample); see known_findings.json and DESIGN.md §3.7, §6. ./check exits 2 (never a VIOLATION line) on build, watchdog or determinism trouble. Thorough runs are time-boxed per property (10-25 minutes of case loop, 'truncated' in the evidence when the plan is larger; VERIF_THOROUGH_BUDGET=<seconds> or --budget overrides, 0 removes the box); another VERIF_SEED explores another part of the space.",
    }
    json.dump(m, open(os.path.join(VERIF, "MANIFEST.json"), "w"), indent=1, ensure_ascii=False)
    print("MANIFEST.json written: %d checks, %d not_applicable" % (len(checks), len(na)))


if __name__ == "__main__":
    main()
