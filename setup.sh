#!/bin/bash
# Run once after a fresh restore, offline: builds the instrumenter and warms the
# Go build cache (std for go1.26.8, the engines) from files on disk only.
set -e
cd "$(dirname "$0")"
export GOFLAGS=-mod=mod GOPROXY=off GOSUMDB=off GOTOOLCHAIN=local CGO_ENABLED=0
mkdir -p .build evidence replays
(cd tools/instr && go1.26.8 build -o ../../.build/instr .)
./check warmup
echo "setup done"
