// Package simctl is the controller half of the deterministic simulator: it runs
// a body inside a testing/synctest bubble and decides, from one stream of
// picks, which parked task proceeds at every step. See /verif/DESIGN.md §3.
package simctl

import (
	"sync/atomic"
	"fmt"
	"io"
	"os"
	"runtime"
	"strings"
	"testing"
	"testing/synctest"
	"time"

	"github.com/Trisia/randomness/simrt"
)

// Rand is a small splitmix64 generator: the same integer gives the same
// sequence on every Go version.
type Rand struct{ s uint64 }

// NewRand seeds a generator.
func NewRand(seed uint64) *Rand { return &Rand{s: seed} }

// Uint64 returns the next value.
func (r *Rand) Uint64() uint64 {
	r.s += 0x9E3779B97F4A7C15
	z := r.s
	z = (z ^ (z >> 30)) * 0xBF58476D1CE4E5B9
	z = (z ^ (z >> 27)) * 0x94D049BB133111EB
	return z ^ (z >> 31)
}

// Intn returns a value in [0,n).
func (r *Rand) Intn(n int) int {
	if n <= 1 {
		return 0
	}
	return int(r.Uint64() % uint64(n))
}

// Float64 returns a value in [0,1).
func (r *Rand) Float64() float64 { return float64(r.Uint64()>>11) / (1 << 53) }

// Fork derives an independent generator.
func (r *Rand) Fork() *Rand { return NewRand(r.Uint64()) }

// Mix derives a seed from a seed and a label/index.
func Mix(seed uint64, idx uint64) uint64 {
	r := NewRand(seed ^ (idx+1)*0xD6E8FEB86659FD93)
	r.Uint64()
	return r.Uint64()
}

// Policy describes how the scheduler picks.
type Policy struct {
	Kind  string `json:"kind"` // random | pct | first | last | recorded | sticky
	Seed  uint64 `json:"seed,omitempty"`
	Depth int    `json:"depth,omitempty"` // pct: number of priority change points
	Span  int    `json:"span,omitempty"`  // pct: step range over which change points are drawn
	Stick int    `json:"stick,omitempty"` // sticky: percent probability of staying with the same task
	Pool  int    `json:"pool,omitempty"`  // behaviour of simrt.Pool (the sync.Pool replacement): 0 always reuse, 1 never, 2 alternate
	// Jitter: per-mille probability, at every scheduling step, that simulated
	// time passes (1 ms ... 3 h) before the next task is released - the released
	// task "was slow". Timers and deadlines of the code under test then fire
	// while work is still in progress. Recorded in the picks as negative entries.
	Jitter int `json:"jitter,omitempty"`
	// GMP: what runtime.GOMAXPROCS(0) reports when it differs from NumCPU
	// (0: the same; k: min(k, NumCPU) - a CPU quota below the core count)
	GMP int `json:"gmp,omitempty"`
}

// Recorded returns the policy that replays recorded picks under the same
// per-run environment knobs (pool behaviour, GOMAXPROCS).
func (p Policy) Recorded() Policy { return Policy{Kind: "recorded", Pool: p.Pool, GMP: p.GMP} }

// Options configures one simulated run.
type Options struct {
	NumCPU       int
	Entropy      io.Reader
	MaxSteps     int   // hard cap on scheduler steps (0: 1e6)
	Quantum      int64 // >0: preemptive; each release gets Quantum..2*Quantum-1 ticks drawn from QRand
	QRand        *Rand
	QGrow        int // >0: the quantum doubles after every QGrow steps, which bounds the steps of a long run
	Policy       Policy
	Picks        []int // recorded picks (Policy.Kind == "recorded")
	KeepTrace    int   // keep at most this many trace events (hash always covers all)
	WallLimit    time.Duration
	OnMainReturn func(step int) // called by the controller when it first sees the main task finished
	StopAtMain   bool           // stop scheduling once the main task has finished (a real process exits there)
	Invariant    func(step int) string
	// SoftWall > 0: after that much real time the controller stops scheduling
	// and reports the run as abandoned (inconclusive, never a hang): a case that
	// has become pathologically slow under the simulator must not stall a batch
	SoftWall time.Duration
}

// Event is one scheduler decision.
type Event struct {
	Step   int    `json:"step"`
	Task   string `json:"task"`
	Label  string `json:"label"`
	Parked int    `json:"parked"`
}

// TaskEnd describes a task at the end of the run.
type TaskEnd struct {
	ID    string `json:"id"`
	Site  string `json:"site"`
	State string `json:"state"`
	Label string `json:"label,omitempty"`
	Panic string `json:"panic,omitempty"`
}

// Result is what the controller observed.
type Result struct {
	Steps         int       `json:"steps"`
	Choices       int       `json:"choices"` // steps at which >= 2 tasks were parked
	MainReturned  bool      `json:"main_returned"`
	MainStep      int       `json:"main_step"`
	Hang          bool      `json:"hang"`       // quiescent (or step limit) with main not returned
	StepLimit     bool      `json:"step_limit"` // MaxSteps reached
	Leaked        []TaskEnd `json:"leaked,omitempty"`
	Panics        []TaskEnd `json:"panics,omitempty"`
	Tasks         int       `json:"tasks"`
	MaxParked     int       `json:"max_parked"`
	TraceHash     uint64    `json:"trace_hash"`
	Trace         []Event   `json:"trace,omitempty"`
	Picks         []int     `json:"picks,omitempty"`
	InvariantFail string    `json:"invariant_fail,omitempty"`
	FakeSleeps    int       `json:"fake_sleeps,omitempty"`
	FakeSlept     time.Duration `json:"fake_slept_ns,omitempty"` // simulated time the controller let pass while every task slept or was blocked
	Jitters       int       `json:"jitters,omitempty"`   // steps at which simulated time was let pass
	Abandoned     bool      `json:"abandoned,omitempty"` // SoftWall exceeded: inconclusive
	Exited        bool      `json:"exited,omitempty"`    // a task called os.Exit / log.Fatal
	ExitCode      int       `json:"exit_code,omitempty"` // its status
	BubbleEnd     string    `json:"bubble_end,omitempty"`
}

type picker struct {
	pol   Policy
	rng   *Rand
	jrng  *Rand
	picks []int
	pos   int
	prio  map[string]int
	chg   map[int]bool
	low   int
	last  string
}

func newPicker(pol Policy, picks []int) *picker {
	p := &picker{pol: pol, rng: NewRand(pol.Seed), jrng: NewRand(Mix(pol.Seed, 0x717)), picks: picks, prio: map[string]int{}, chg: map[int]bool{}}
	if pol.Kind == "pct" {
		span := pol.Span
		if span <= 0 {
			span = 1000
		}
		for i := 0; i < pol.Depth; i++ {
			p.chg[p.rng.Intn(span)] = true
		}
	}
	return p
}

func (p *picker) pick(parked []*simrt.Task, step int) int {
	n := len(parked)
	switch p.pol.Kind {
	case "recorded":
		v := 0
		for p.pos < len(p.picks) && p.picks[p.pos] < 0 {
			p.pos++ // (a jitter entry that was not consumed)
		}
		if p.pos < len(p.picks) {
			v = p.picks[p.pos]
		}
		p.pos++
		if v < 0 {
			v = 0
		}
		if v >= n {
			v = v % n
		}
		return v
	case "first":
		return 0
	case "last":
		return n - 1
	case "sticky":
		if p.last != "" && p.rng.Intn(100) < p.pol.Stick {
			for i, t := range parked {
				if t.ID == p.last {
					return i
				}
			}
		}
		return p.rng.Intn(n)
	case "pct":
		best, bi := -1<<62, 0
		for i, t := range parked {
			pr, ok := p.prio[t.ID]
			if !ok {
				pr = 1000 + p.rng.Intn(1000000)
				p.prio[t.ID] = pr
			}
			if pr > best {
				best, bi = pr, i
			}
		}
		if p.chg[step] {
			p.low--
			p.prio[parked[bi].ID] = p.low
		}
		return bi
	default: // random
		return p.rng.Intn(n)
	}
}

func fnv(h uint64, s string) uint64 {
	for i := 0; i < len(s); i++ {
		h ^= uint64(s[i])
		h *= 1099511628211
	}
	h ^= 0xff
	h *= 1099511628211
	return h
}

var stateName = [...]string{"starting", "running", "parked", "finished"}

// jitterDurations are the stretches of simulated time a jitter step lets pass.
var jitterDurations = []time.Duration{time.Millisecond, 100 * time.Millisecond, 2 * time.Second, 40 * time.Second, 11 * time.Minute, 3 * time.Hour}

// Run executes body as the main task of a simulated run and schedules every
// task of the system until quiescence.
func Run(t *testing.T, opt Options, body func()) (res Result) {
	if opt.MaxSteps <= 0 {
		opt.MaxSteps = 1000000
	}
	if opt.WallLimit <= 0 {
		opt.WallLimit = 10 * time.Minute
	}
	// wall-clock watchdog, created outside the bubble: a wedged simulator is
	// harness trouble (exit 2), never a violation.
	wd := time.AfterFunc(opt.WallLimit, func() {
		buf := make([]byte, 1<<20)
		n := runtime.Stack(buf, true)
		fmt.Fprintf(os.Stderr, "SIMCTL WATCHDOG: run exceeded %v wall clock\n%s\n", opt.WallLimit, buf[:n])
		os.Exit(2)
	})
	defer wd.Stop()
	var abandon int32
	if opt.SoftWall > 0 {
		// (created outside the bubble: a real timer)
		st := time.AfterFunc(opt.SoftWall, func() { atomic.StoreInt32(&abandon, 1) })
		defer st.Stop()
	}
	defer simrt.AfterRun()
	defer func() {
		if r := recover(); r != nil {
			s := fmt.Sprint(r)
			if strings.Contains(s, "deadlock: main bubble goroutine has exited but blocked goroutines remain") {
				res.BubbleEnd = "blocked goroutines remained"
				return
			}
			panic(r)
		}
	}()
	synctest.Test(t, func(t *testing.T) {
		pk := newPicker(opt.Policy, opt.Picks)
		simrt.Begin(opt.NumCPU, opt.Entropy)
		simrt.SetPoolMode(opt.Policy.Pool)
		simrt.SetGoMaxProcs(opt.Policy.GMP)
		defer simrt.End()
		main := simrt.Child("main")
		go simrt.RunTask(main, body)
		h := uint64(14695981039346656037)
		mainSeen := false
		sleeps := 0
		jittered := false
		for {
			synctest.Wait()
			if ex, code := simrt.ExitRequested(); ex && !mainSeen {
				// some task called os.Exit / log.Fatal: the process is over
				mainSeen = true
				res.MainReturned = true
				res.MainStep = res.Steps
				res.Exited = true
				res.ExitCode = code
				if opt.OnMainReturn != nil {
					opt.OnMainReturn(res.Steps)
				}
				break
			}
			if !mainSeen && main.State() == simrt.StFinished {
				mainSeen = true
				res.MainReturned = true
				res.MainStep = res.Steps
				if opt.OnMainReturn != nil {
					opt.OnMainReturn(res.Steps)
				}
				if opt.StopAtMain {
					break
				}
			}
			if opt.Invariant != nil && res.InvariantFail == "" {
				if msg := opt.Invariant(res.Steps); msg != "" {
					res.InvariantFail = fmt.Sprintf("step %d: %s", res.Steps, msg)
				}
			}
			parked := simrt.Parked()
			if len(parked) == 0 {
				// nothing runnable: either everything finished, or tasks are
				// blocked in real operations. Let fake time pass a few times in
				// case somebody sleeps or waits on a timer.
				allDone := true
				for _, tk := range simrt.Tasks() {
					if tk.State() != simrt.StFinished {
						allDone = false
					}
				}
				// Let simulated time pass in doubling stretches (1 ms, 2 ms, ... ) until
				// somebody wakes up or, per stall, about four years have gone by:
				// a sleeping task is reached with at most twice its sleep, a task
				// that is blocked for good costs some forty cheap iterations. (The
				// bubble's clock is an int64 of nanoseconds from the year 2000;
				// stretches are kept short so that thousands of stalls cannot
				// overflow it.)
				if allDone || sleeps >= 37 || res.FakeSleeps >= 2000000 {
					break
				}
				d := time.Millisecond << uint(sleeps)
				sleeps++
				res.FakeSleeps++
				res.FakeSlept += d
				time.Sleep(d)
				continue
			}
			if res.Steps >= opt.MaxSteps {
				res.StepLimit = true
				break
			}
			if atomic.LoadInt32(&abandon) == 1 {
				res.Abandoned = true
				break
			}
			if len(parked) > res.MaxParked {
				res.MaxParked = len(parked)
			}
			if len(parked) >= 2 {
				res.Choices++
			}
			sleeps = 0 // progress is possible again: the fake-sleep allowance is per stall
			if !jittered {
				ji := -1
				if pk.pol.Kind == "recorded" {
					if pk.pos < len(pk.picks) && pk.picks[pk.pos] < 0 {
						ji = -pk.picks[pk.pos] - 1
						pk.pos++
					}
				} else if opt.Policy.Jitter > 0 && pk.jrng.Intn(1000) < opt.Policy.Jitter {
					ji = pk.jrng.Intn(len(jitterDurations))
				}
				if ji >= 0 && ji < len(jitterDurations) {
					// simulated time passes; whoever was waiting for a timer wakes
					// up and parks at its next scheduling point, then we choose again
					res.Picks = append(res.Picks, -ji-1)
					res.Jitters++
					h = fnv(h, "jitter")
					jittered = true
					res.FakeSlept += jitterDurations[ji]
					time.Sleep(jitterDurations[ji])
					continue
				}
			}
			jittered = false
			i := pk.pick(parked, res.Steps)
			tk := parked[i]
			lbl := tk.Label()
			res.Picks = append(res.Picks, i)
			h = fnv(h, tk.ID)
			h = fnv(h, lbl)
			h = fnv(h, string(rune('a'+len(parked)%64)))
			if len(res.Trace) < opt.KeepTrace {
				res.Trace = append(res.Trace, Event{res.Steps, tk.ID, lbl, len(parked)})
			}
			pk.last = tk.ID
			if opt.Quantum > 0 {
				q := opt.Quantum
				if opt.QGrow > 0 {
					sh := uint(res.Steps / opt.QGrow)
					if sh > 24 {
						sh = 24
					}
					q <<= sh
				}
				if opt.QRand != nil {
					q += int64(opt.QRand.Intn(int(q)))
				}
				simrt.SetQuantum(q)
			}
			res.Steps++
			simrt.Release(tk)
		}
		res.TraceHash = h
		ts := simrt.Tasks()
		res.Tasks = len(ts)
		for _, tk := range ts {
			pv, stk := tk.Panic()
			if pv != nil {
				res.Panics = append(res.Panics, TaskEnd{ID: tk.ID, Site: tk.Site, State: "panicked", Panic: fmt.Sprint(pv) + "\n" + stk})
			}
			if tk.State() != simrt.StFinished {
				res.Leaked = append(res.Leaked, TaskEnd{ID: tk.ID, Site: tk.Site, State: stateName[tk.State()], Label: tk.Label()})
			}
		}
		if !res.MainReturned && !res.Abandoned {
			res.Hang = true
		}
	})
	return res
}
