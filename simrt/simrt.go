// Package simrt is the runtime half of the deterministic simulator. It is copied
// into a scratch copy of the repository at check time (never committed to
// /repo); the instrumenter rewrites the repository's synchronisation
// operations into calls of this package. Outside a simulated run every entry
// point is a pass-through, so the instrumented copy behaves like the original.
//
// The file is deliberately written in conservative Go (the module it is copied
// into declares "go 1.11").
package simrt

import (
	crand "crypto/rand"
	"fmt"
	"io"
	"log"
	"os"
	"reflect"
	"runtime"
	"sort"
	"strconv"
	"sync"
	"sync/atomic"
)

// Task states.
const (
	StStarting = iota // created by the parent, goroutine not yet parked
	StRunning
	StParked
	StFinished
)

// Task is one goroutine of the system under test.
type Task struct {
	ID       string
	Path     []int
	Site     string // spawn site
	wake     chan struct{}
	label    string
	state    int32
	nspawn   int
	goid     uint64
	panicVal interface{}
	panicStk string
	Yields   int
}

// Label is the scheduling point at which the task is parked.
func (t *Task) Label() string { mu.Lock(); defer mu.Unlock(); return t.label }

// State returns the task state.
func (t *Task) State() int { return int(atomic.LoadInt32(&t.state)) }

// Panic returns the recovered panic value of a task that ended by panicking.
func (t *Task) Panic() (interface{}, string) { mu.Lock(); defer mu.Unlock(); return t.panicVal, t.panicStk }

var (
	mu      sync.Mutex
	on      int32 // 1 while a simulated run is active
	gen     int64 // run generation (for lazily created primitives)
	byGoid  map[uint64]*Task
	all     []*Task
	root    *Task
	numCPU  int
	goMaxProcs int
	entropy io.Reader
	tickOn  int32
	quantum int64
	anon    int
	// Wakes counts Yield calls that actually parked (statistics only).
	parks int64
)

// Active reports whether a simulated run is in progress.
func Active() bool { return atomic.LoadInt32(&on) == 1 }

var beginHooks []func()

// OnBegin registers a function run at the start of every simulated run, inside
// the bubble. The instrumenter uses it to re-create package-level channels: a
// channel made at package initialisation lives outside the synctest bubble, so
// a task blocked on it would not count as durably blocked and the simulator
// could not see the run go quiescent. Every run thus starts, like a fresh
// process, with new package-level channels.
func OnBegin(f func()) {
	mu.Lock()
	beginHooks = append(beginHooks, f)
	mu.Unlock()
}

// AfterRun is called by the controller once the bubble of a run has ended: the
// package-level channels are re-created once more, outside any bubble, so that
// code running later without the simulator does not touch a channel that
// belongs to a finished bubble.
func AfterRun() {
	mu.Lock()
	hooks := append([]func(){}, beginHooks...)
	mu.Unlock()
	for _, h := range hooks {
		h()
	}
}

// Begin starts a simulated run. It must be called inside the synctest bubble
// by the controller goroutine. ncpu is what NumCPU() reports, ent is what
// Entropy() returns (nil: the real crypto/rand.Reader).
func Begin(ncpu int, ent io.Reader) {
	mu.Lock()
	defer mu.Unlock()
	byGoid = map[uint64]*Task{}
	all = nil
	root = &Task{ID: "r", Path: []int{}}
	numCPU = ncpu
	goMaxProcs = 0
	entropy = ent
	anon = 0
	atomic.AddInt64(&gen, 1)
	atomic.StoreInt64(&quantum, 0)
	atomic.StoreInt32(&poolMode, 0)
	atomic.StoreInt32(&exitReq, 0)
	atomic.StoreInt32(&on, 1)
	hooks := append([]func(){}, beginHooks...)
	mu.Unlock()
	for _, h := range hooks {
		h()
	}
	mu.Lock()
}

// End stops the simulated run: every later simrt call is a pass-through. Tasks
// that are still parked stay parked for good (and tasks blocked in real
// channel operations stay blocked): releasing them would let code of a
// finished run execute, unscheduled, beside the next run. The controller has
// already reported them; the goroutines are leaked on purpose.
func End() {
	atomic.StoreInt32(&on, 0)
	atomic.StoreInt32(&tickOn, 0)
}

// SetQuantum arms the preemption counter: the n-th Tick from now parks the
// task that executes it. n <= 0 disarms it.
func SetQuantum(n int64) {
	if n <= 0 {
		atomic.StoreInt32(&tickOn, 0)
		return
	}
	atomic.StoreInt64(&quantum, n)
	atomic.StoreInt32(&tickOn, 1)
}

func goid() uint64 {
	var buf [64]byte
	n := runtime.Stack(buf[:], false)
	// "goroutine 123 ["
	s := buf[10:n]
	var id uint64
	for _, c := range s {
		if c < '0' || c > '9' {
			break
		}
		id = id*10 + uint64(c-'0')
	}
	return id
}

func current() *Task {
	g := goid()
	mu.Lock()
	t := byGoid[g]
	mu.Unlock()
	return t
}

func pathID(p []int) string {
	s := "t"
	for i, v := range p {
		if i > 0 {
			s += "."
		}
		s += strconv.Itoa(v)
	}
	return s
}

// ---- process exit ----

type exitSentinel struct{ code int }

var (
	exitReq  int32
	exitCode int32
)

// Exit replaces os.Exit: inside a simulated run the "process" ends - the
// calling task unwinds and the controller treats the run like a main that has
// returned, with the exit status recorded - instead of killing the engine.
func Exit(code int) {
	if atomic.LoadInt32(&on) == 0 || current() == nil {
		os.Exit(code)
	}
	atomic.StoreInt32(&exitCode, int32(code))
	atomic.StoreInt32(&exitReq, 1)
	panic(exitSentinel{code})
}

// ExitRequested reports whether a task called Exit during the current run.
func ExitRequested() (bool, int) {
	return atomic.LoadInt32(&exitReq) == 1, int(atomic.LoadInt32(&exitCode))
}

// LogFatal, LogFatalf and LogFatalln replace log.Fatal*.
func LogFatal(v ...interface{})                 { log.Print(v...); Exit(1) }
func LogFatalf(format string, v ...interface{}) { log.Printf(format, v...); Exit(1) }
func LogFatalln(v ...interface{})               { log.Println(v...); Exit(1) }

// CurrentID returns the canonical id of the calling task ("" outside a
// simulated run or on a goroutine that is not a task).
func CurrentID() string {
	if atomic.LoadInt32(&on) == 0 {
		return ""
	}
	if t := current(); t != nil {
		return t.ID
	}
	return ""
}

// Child allocates, in the parent, the task record of a goroutine about to be
// started. Returns nil outside a simulated run.
func Child(site string) *Task {
	if atomic.LoadInt32(&on) == 0 {
		return nil
	}
	p := current()
	mu.Lock()
	defer mu.Unlock()
	if p == nil {
		p = root
	}
	path := append(append([]int(nil), p.Path...), p.nspawn)
	p.nspawn++
	t := &Task{ID: pathID(path), Path: path, Site: site, wake: make(chan struct{})}
	all = append(all, t)
	return t
}

// Spawn is what an instrumented "go f(args...)" becomes:
// "go simrt.Spawn(simrt.Child(site), f, args...)". f and args are evaluated by
// the parent at the go statement, exactly as before.
func Spawn(t *Task, f interface{}, args ...interface{}) {
	spawn(t, f, false, args)
}

// SpawnV is Spawn for a call whose last argument is spread ("f(a, xs...)").
func SpawnV(t *Task, f interface{}, args ...interface{}) {
	spawn(t, f, true, args)
}

func spawn(t *Task, f interface{}, spread bool, args []interface{}) {
	fv := reflect.ValueOf(f)
	ft := fv.Type()
	in := make([]reflect.Value, len(args))
	for i, a := range args {
		var pt reflect.Type
		if ft.IsVariadic() && i >= ft.NumIn()-1 {
			pt = ft.In(ft.NumIn() - 1)
			if !(spread && i == len(args)-1) {
				pt = pt.Elem()
			}
		} else {
			pt = ft.In(i)
		}
		if a == nil {
			in[i] = reflect.Zero(pt)
		} else {
			v := reflect.ValueOf(a)
			if v.Type() != pt && v.Type().ConvertibleTo(pt) && pt.Kind() != reflect.Interface {
				v = v.Convert(pt)
			}
			in[i] = v
		}
	}
	call := func() {
		if spread {
			fv.CallSlice(in)
		} else {
			fv.Call(in)
		}
	}
	if t == nil {
		call()
		return
	}
	RunTask(t, call)
}

// RunTask runs body as task t on the current goroutine: parks at "start",
// runs, records a panic instead of crashing the process, marks the task
// finished.
func RunTask(t *Task, body func()) {
	g := goid()
	mu.Lock()
	t.goid = g
	byGoid[g] = t
	mu.Unlock()
	defer func() {
		if r := recover(); r != nil {
			if _, isExit := r.(exitSentinel); !isExit {
				buf := make([]byte, 4096)
				n := runtime.Stack(buf, false)
				mu.Lock()
				t.panicVal = r
				t.panicStk = string(buf[:n])
				mu.Unlock()
			}
		}
		mu.Lock()
		delete(byGoid, g)
		t.label = "finished"
		mu.Unlock()
		atomic.StoreInt32(&t.state, StFinished)
	}()
	park(t, "start@"+t.Site)
	body()
}

func park(t *Task, label string) {
	mu.Lock()
	t.label = label
	t.Yields++
	mu.Unlock()
	atomic.StoreInt32(&t.state, StParked)
	atomic.AddInt64(&parks, 1)
	<-t.wake
	atomic.StoreInt32(&t.state, StRunning)
}

// Yield is a scheduling point: inside a simulated run the calling task parks
// until the controller releases it.
func Yield(label string) {
	if atomic.LoadInt32(&on) == 0 {
		return
	}
	t := current()
	if t == nil {
		return
	}
	park(t, label)
}

// Tick is a preemption point inserted at loop heads (profile "preempt").
func Tick() {
	if atomic.LoadInt32(&tickOn) == 0 {
		return
	}
	if atomic.AddInt64(&quantum, -1) == 0 {
		Yield("tick")
	}
}

// NumCPU replaces runtime.NumCPU().
func NumCPU() int {
	if atomic.LoadInt32(&on) == 1 {
		mu.Lock()
		n := numCPU
		mu.Unlock()
		if n > 0 {
			return n
		}
	}
	return runtime.NumCPU()
}

// GoMaxProcs replaces runtime.GOMAXPROCS(0). It may be lower than NumCPU (a
// container CPU quota, a GOMAXPROCS environment variable), never higher.
func GoMaxProcs() int {
	if atomic.LoadInt32(&on) == 1 {
		mu.Lock()
		n, g := numCPU, goMaxProcs
		mu.Unlock()
		if n > 0 {
			if g > 0 && g < n {
				return g
			}
			return n
		}
	}
	return runtime.GOMAXPROCS(0)
}

// SetGoMaxProcs sets what GoMaxProcs reports during the current run (0: the same as NumCPU).
func SetGoMaxProcs(n int) {
	mu.Lock()
	goMaxProcs = n
	mu.Unlock()
}

// Entropy replaces crypto/rand.Reader.
func Entropy() io.Reader {
	if atomic.LoadInt32(&on) == 1 {
		mu.Lock()
		e := entropy
		mu.Unlock()
		if e != nil {
			return e
		}
	}
	return crand.Reader
}

// EntropyRead replaces crypto/rand.Read.
func EntropyRead(b []byte) (int, error) { return io.ReadFull(Entropy(), b) }

// ---- controller side ----

// Tasks returns all tasks created so far, sorted by canonical id.
func Tasks() []*Task {
	mu.Lock()
	ts := append([]*Task(nil), all...)
	mu.Unlock()
	sort.Slice(ts, func(i, j int) bool { return lessPath(ts[i].Path, ts[j].Path) })
	return ts
}

func lessPath(a, b []int) bool {
	for i := 0; i < len(a) && i < len(b); i++ {
		if a[i] != b[i] {
			return a[i] < b[i]
		}
	}
	return len(a) < len(b)
}

// Parked returns the parked tasks sorted by canonical id. Only meaningful when
// every goroutine of the bubble is durably blocked (after synctest.Wait).
func Parked() []*Task {
	ts := Tasks()
	out := ts[:0]
	for _, t := range ts {
		if t.State() == StParked {
			out = append(out, t)
		}
	}
	return out
}

// Release lets a parked task run to its next scheduling point.
func Release(t *Task) {
	t.wake <- struct{}{}
}

// Parks returns the total number of park operations since process start.
func Parks() int64 { return atomic.LoadInt64(&parks) }

// ---- replacements for sync primitives whose blocking must be visible to the
// simulator (a task parked while holding a real sync.Mutex would wedge it) ----

// Mutex replaces sync.Mutex.
type Mutex struct {
	o   sync.Mutex
	g   int64
	ch  chan struct{}
	raw sync.Mutex
	// outside a simulated run the real mutex is used
	simHeld bool
}

func (m *Mutex) slot() chan struct{} {
	m.o.Lock()
	defer m.o.Unlock()
	g := atomic.LoadInt64(&gen)
	if m.ch == nil || m.g != g {
		m.ch = make(chan struct{}, 1)
		m.g = g
	}
	return m.ch
}

// Lock locks m.
func (m *Mutex) Lock() {
	if atomic.LoadInt32(&on) == 0 || current() == nil {
		m.raw.Lock()
		return
	}
	Yield("lock")
	m.slot() <- struct{}{}
	m.o.Lock()
	m.simHeld = true
	m.o.Unlock()
	Yield("locked")
}

// Unlock unlocks m.
func (m *Mutex) Unlock() {
	m.o.Lock()
	held := m.simHeld
	m.simHeld = false
	m.o.Unlock()
	if !held {
		m.raw.Unlock()
		return
	}
	select {
	case <-m.slot():
	default:
		panic("simrt: unlock of unlocked mutex")
	}
}

// TryLock tries to lock m.
func (m *Mutex) TryLock() bool {
	if atomic.LoadInt32(&on) == 0 || current() == nil {
		return m.raw.TryLock()
	}
	select {
	case m.slot() <- struct{}{}:
		m.o.Lock()
		m.simHeld = true
		m.o.Unlock()
		return true
	default:
		return false
	}
}

// RWMutex replaces sync.RWMutex (writer-exclusive, readers shared).
type RWMutex struct {
	o       sync.Mutex
	g       int64
	changed chan struct{}
	readers int
	writer  bool
	raw     sync.RWMutex
	simW    bool
	simR    int
}

func (m *RWMutex) sim() bool { return atomic.LoadInt32(&on) == 1 && current() != nil }

func (m *RWMutex) fresh() {
	g := atomic.LoadInt64(&gen)
	if m.changed == nil || m.g != g {
		m.changed = make(chan struct{})
		m.g = g
		m.readers = 0
		m.writer = false
	}
}

func (m *RWMutex) signal() {
	close(m.changed)
	m.changed = make(chan struct{})
}

// Lock takes the write lock.
func (m *RWMutex) Lock() {
	if !m.sim() {
		m.raw.Lock()
		return
	}
	Yield("wlock")
	for {
		m.o.Lock()
		m.fresh()
		if !m.writer && m.readers == 0 {
			m.writer = true
			m.simW = true
			m.o.Unlock()
			break
		}
		c := m.changed
		m.o.Unlock()
		<-c
	}
	Yield("wlocked")
}

// Unlock releases the write lock.
func (m *RWMutex) Unlock() {
	m.o.Lock()
	if !m.simW {
		m.o.Unlock()
		m.raw.Unlock()
		return
	}
	m.simW = false
	m.fresh()
	m.writer = false
	m.signal()
	m.o.Unlock()
}

// RLock takes a read lock.
func (m *RWMutex) RLock() {
	if !m.sim() {
		m.raw.RLock()
		return
	}
	Yield("rlock")
	for {
		m.o.Lock()
		m.fresh()
		if !m.writer {
			m.readers++
			m.simR++
			m.o.Unlock()
			break
		}
		c := m.changed
		m.o.Unlock()
		<-c
	}
	Yield("rlocked")
}

// RUnlock releases a read lock.
func (m *RWMutex) RUnlock() {
	m.o.Lock()
	if m.simR == 0 {
		m.o.Unlock()
		m.raw.RUnlock()
		return
	}
	m.simR--
	m.fresh()
	if m.readers > 0 {
		m.readers--
	}
	m.signal()
	m.o.Unlock()
}

// RLocker returns a Locker for the read side.
func (m *RWMutex) RLocker() sync.Locker { return rlocker{m} }

type rlocker struct{ m *RWMutex }

func (r rlocker) Lock()   { r.m.RLock() }
func (r rlocker) Unlock() { r.m.RUnlock() }

// Once replaces sync.Once.
type Once struct {
	m    Mutex
	done uint32
	g    int64 // run generation in which f ran (0: outside any simulated run)
}

// Do calls f once. Every simulated run stands for a process of its own: what a
// Once started in an earlier run (resident goroutines, channels) ended with
// that run's bubble, so a Once completed inside an earlier run counts as not
// done. One completed outside any run (package initialisation) stays done.
func (o *Once) Do(f func()) {
	simulated := atomic.LoadInt32(&on) != 0 && current() != nil
	g := int64(0)
	if simulated {
		g = atomic.LoadInt64(&gen)
	}
	if atomic.LoadUint32(&o.done) == 1 && (atomic.LoadInt64(&o.g) == 0 || atomic.LoadInt64(&o.g) == g) {
		return
	}
	o.m.Lock()
	defer o.m.Unlock()
	if o.done == 0 || (o.g != 0 && o.g != g) {
		defer func() {
			atomic.StoreInt64(&o.g, g)
			atomic.StoreUint32(&o.done, 1)
		}()
		f()
	}
}

// Pool replaces sync.Pool. sync.Pool's reuse is decided by the runtime (per-P
// caches, GC) and cannot be replayed; inside a simulated run this one is a
// last-in first-out free list that starts empty in every run, with a per-run
// mode set by the controller: 0 always reuses (the most adversarial for stale
// contents and for an object put back while still in use), 1 never reuses,
// 2 reuses every other time.
type Pool struct {
	New func() interface{}

	raw   sync.Pool
	o     sync.Mutex
	g     int64
	items []interface{}
	n     int
}

var poolMode int32

// SetPoolMode selects how Pool behaves during the current run.
func SetPoolMode(m int) { atomic.StoreInt32(&poolMode, int32(m)) }

// Get returns an object from the pool.
func (p *Pool) Get() interface{} {
	if atomic.LoadInt32(&on) == 0 || current() == nil {
		if v := p.raw.Get(); v != nil {
			return v
		}
		if p.New != nil {
			return p.New()
		}
		return nil
	}
	Yield("pool.get")
	p.o.Lock()
	if g := atomic.LoadInt64(&gen); p.g != g {
		p.g, p.items, p.n = g, nil, 0
	}
	p.n++
	var v interface{}
	reuse := true
	switch atomic.LoadInt32(&poolMode) {
	case 1:
		reuse = false
	case 2:
		reuse = p.n%2 == 0
	}
	if reuse && len(p.items) > 0 {
		v = p.items[len(p.items)-1]
		p.items = p.items[:len(p.items)-1]
	}
	p.o.Unlock()
	if v == nil && p.New != nil {
		v = p.New()
	}
	return v
}

// Put hands an object back.
func (p *Pool) Put(x interface{}) {
	if x == nil {
		return
	}
	if atomic.LoadInt32(&on) == 0 || current() == nil {
		p.raw.Put(x)
		return
	}
	Yield("pool.put")
	p.o.Lock()
	if g := atomic.LoadInt64(&gen); p.g != g {
		p.g, p.items, p.n = g, nil, 0
	}
	p.items = append(p.items, x)
	p.o.Unlock()
}

// Describe renders a task list for diagnostics.
func Describe(ts []*Task) string {
	s := ""
	for _, t := range ts {
		st := [...]string{"starting", "running", "parked", "finished"}[t.State()]
		s += fmt.Sprintf("%s[%s@%s] ", t.ID, st, t.Label())
	}
	return s
}
