"""tool-sim engine driver: C13 (rddetector) and C20 (rdgen). See DESIGN.md §3.3, §4.6, §4.9."""
import os, shutil, json, time

TOOL = {"C20": "rdgen", "C13": "rddetector"}

RULE = {
    "C20": "cases = (s, n bits, -o form: absent/relative/nested/absolute/pre-existing/unclean relative, worker count (NumCPU seam) 1..16, seeded scheduling policy, entropy seed); the real main() of rdgen runs as the main task; the file system under the per-run scratch root is snapshotted at the moment main returns; distinct_nontrivial = distinct (configuration, event-trace hash) among executions with >= 1 step at which >= 2 tasks were runnable",
    "C13": "cases = (scale, set of sample files: count, nesting, .bin/.dat, decoys, contents; -n worker count 1..64; seeded scheduling policy); the real main() of rddetector runs as the main task on a per-run scratch tree and the report is read at the moment main returns; a second family drives the per-scale worker functions on small files (column model only); distinct_nontrivial = distinct (configuration, event-trace hash) among executions with >= 1 real scheduling choice",
}

COMPONENTS = {
    "C20": {"real": ["tools/rdgen main(), worker(), flag parsing, os/filepath calls, the file system (scratch directory per run)", "channel / WaitGroup logic"],
            "stub": ["entropy source (seeded PRF instead of crypto/rand.Reader)", "worker count (runtime.NumCPU seam)", "goroutine scheduling (seeded controller)"]},
    "C13": {"real": ["tools/rddetector main(), resultWriter, worker_2E4/1E6/1E8, toBeTestFileNum, filepath.Walk, the file system", "the library test functions (they are the value oracle too)", "channel / WaitGroup logic"],
            "stub": ["goroutine scheduling (seeded controller)", "input tree (generated per run)"]},
}


def build(chk, sc, repo, tool):
    d = os.path.join(repo, "tools", tool)
    src = os.path.join(chk.VERIF, "harness", "toolsim")
    shutil.copy(os.path.join(src, "common_test.go.txt"), os.path.join(d, "zz_verif_common_test.go"))
    shutil.copy(os.path.join(src, tool + "_test.go.txt"), os.path.join(d, "zz_verif_%s_test.go" % tool))
    binp = os.path.join(sc.dir, tool + ".test")
    opt = os.path.join(src, tool + "_1e8w_test.go.txt")
    optdst = os.path.join(d, "zz_verif_%s_1e8w_test.go" % tool)
    if os.path.exists(opt):
        shutil.copy(opt, optdst)
    rc, o = chk.run([chk.GO, "test", "-c", "-o", binp, "./tools/" + tool], cwd=repo)
    if rc != 0 and os.path.exists(opt):
        # the optional part refers to functions of the tool by name (worker_1E8, resultWriter): when the working
        # tree no longer has them in that shape, build with the stub; those cases are then counted as unobservable
        shutil.copy(os.path.join(src, tool + "_1e8w_stub_test.go.txt"), optdst)
        rc2, o2 = chk.run([chk.GO, "test", "-c", "-o", binp, "./tools/" + tool], cwd=repo)
        if rc2 == 0:
            print("warning: the 10^8-scale worker function could not be driven directly (built with a stub):\n" + "\n".join(o.splitlines()[:6]))
            return binp
    if rc != 0:
        chk.die("tool-sim engine for %s does not build against the instrumented copy of the working tree:\n%s" % (tool, o))
    return binp


def race_build(chk, sc, tool):
    """the tool from a pristine copy of the working tree (+ the inactive simrt package), test binary built with -race"""
    repo = os.path.join(sc.dir, "repo-pristine")
    if not os.path.isdir(repo):
        repo, _ = chk.prepare(sc, "pristine", instrument=False)
    d = os.path.join(repo, "tools", tool)
    src = os.path.join(chk.VERIF, "harness", "toolsim")
    shutil.copy(os.path.join(src, "common_test.go.txt"), os.path.join(d, "zz_verif_common_test.go"))
    shutil.copy(os.path.join(src, tool + "_test.go.txt"), os.path.join(d, "zz_verif_%s_test.go" % tool))
    opt = os.path.join(src, tool + "_1e8w_test.go.txt")
    optdst = os.path.join(d, "zz_verif_%s_1e8w_test.go" % tool)
    if os.path.exists(opt):
        shutil.copy(opt, optdst)
    binp = os.path.join(sc.dir, tool + ".race.test")
    env = dict(chk.ENV)
    env["CGO_ENABLED"] = "1"
    cmd = [chk.GO, "test", "-race", "-c", "-o", binp, "./tools/" + tool]
    rc, o = chk.run(cmd, cwd=repo, env=env)
    if rc != 0 and os.path.exists(opt):
        shutil.copy(os.path.join(src, tool + "_1e8w_stub_test.go.txt"), optdst)
        rc, o2 = chk.run(cmd, cwd=repo, env=env)
    if rc != 0:
        chk.die("real-scheduler monitor for %s does not build:\n%s" % (tool, o))
    # the tool itself, as a user would build it, plus the race detector
    toolbin = os.path.join(sc.dir, tool + ".race.bin")
    rc, o = chk.run([chk.GO, "build", "-race", "-o", toolbin, "./tools/" + tool], cwd=repo, env=env)
    if rc != 0:
        chk.die("real-scheduler monitor: %s does not build with -race:\n%s" % (tool, o))
    if tool == "rdgen":
        # the batch detector as a user would build it: the generator's output directory is handed to it
        rc, o = chk.run([chk.GO, "build", "-o", os.path.join(sc.dir, "rddetector.bin"), "./tools/rddetector"], cwd=repo, env=env)
        if rc != 0:
            chk.die("real-scheduler monitor: rddetector does not build:\n%s" % o)
    return binp


def warmup(chk, sc):
    repo = os.path.join(sc.dir, "repo-sched")
    for tool in ("rdgen", "rddetector"):
        if os.path.exists(os.path.join(chk.VERIF, "harness", "toolsim", tool + "_test.go.txt")):
            build(chk, sc, repo, tool)
            race_build(chk, sc, tool)


def main(chk, a, tier, seed):
    t0 = time.time()
    prop = a.prop
    tool = TOOL[prop]
    sc = chk.Scratch(prop)
    try:
        repo, istats = chk.prepare(sc, "sched")
        san = chk.sanity_proc(repo)
        binp = build(chk, sc, repo, tool)
        work = os.path.join(sc.dir, "work")
        os.makedirs(work)
        replay_dir = os.path.join(chk.VERIF, "replays")
        os.makedirs(replay_dir, exist_ok=True)
        rev = chk.repo_rev()
        n = 1 if a.replay else chk.NPROC
        budget = a.budget or chk.default_budget(prop, tier)
        jobs = []
        for i in range(n):
            wd = os.path.join(work, "p%d" % i)
            os.makedirs(wd)
            jobs.append({"prop": prop, "tier": tier, "seed": seed, "i": i, "n": n, "out": os.path.join(work, "out_%d.json" % i),
                         "replay_dir": replay_dir, "budget_s": budget, "repo_rev": rev, "det_check": 10 if tier == "quick" else 40,
                         "replay": os.path.abspath(a.replay) if a.replay else "", "work_dir": wd})
        # auxiliary real-scheduler monitor: the pristine tool under the race detector, real goroutines on 1/2/4/16 CPUs,
        # same plan and same oracle; catches what a serialised simulation cannot (torn updates of shared memory)
        import threading
        import engine_libsim as el
        race = {}

        def race_thread():
            try:
                rbin = race_build(chk, sc, tool)
                race["res"] = el.race_run(chk, rbin, work, prop, "quick" if tier == "quick" else "racethorough", seed, rev, replay_dir, 35 if tier == "quick" else 900,
                                          extra_env={"VERIF_TOOL_BIN": os.path.join(sc.dir, tool + ".race.bin"), "VERIF_DETECTOR_BIN": os.path.join(sc.dir, "rddetector.bin")})
            except SystemExit as e:
                race["exit"] = e.code

        th = None
        if not a.replay:
            th = threading.Thread(target=race_thread)
            th.start()
        outs, bad = chk.launch(binp, jobs, work, 6 * 3600 if tier == "thorough" else 1500)
        chk.sanity_verdict(san, sc)
        if th is not None:
            th.join()
        if bad:
            chk.die("engine process trouble: %s" % "\n".join("proc %d rc=%s\n%s" % b for b in bad))
        extra_cov = None
        if th is not None:
            if "res" not in race:
                chk.die("real-scheduler monitor could not be built or run")
            routs, races, rbad = race["res"]
            if rbad:
                chk.die("real-scheduler monitor trouble: %s" % "\n".join("cpus %d rc=%s\n%s" % b for b in rbad))
            rf = el.race_found(chk, prop, seed, races, replay_dir)
            rmis = []
            for o in routs:
                rmis += o.get("found") or []
            own = {}
            for o in routs:
                for k, v in (o.get("probes") or {}).items():
                    if k.startswith("race-monitor"):
                        own[k] = own.get(k, 0) + v
            extra_cov = {"race_monitor": {"executions": sum(o["executions"] for o in routs), "cpu_counts": [1, 2, 4, 16], "races_reported": len(races), "own_cases": own,
                                          "note": "auxiliary monitor: the pristine tool, go test -race, real goroutines under taskset, schedule not controlled, same plan and oracle"}}
            outs.append({"found": rf + rmis, "cases": 0, "executions": 0, "steps": 0, "choices": 0})
        return chk.finish(prop, tier, seed, t0, outs, istats, a, components=COMPONENTS[prop], rule=RULE[prop], extra_cov=extra_cov)
    finally:
        sc.cleanup()
