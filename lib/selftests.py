"""selftest-determinism and selftest-sensitivity (DESIGN.md §3.6)."""
import os, json, subprocess, shutil, sys, time, tempfile, glob


def _job(prop, tier, seed, i, n, out, extra=None):
    j = {"prop": prop, "tier": tier, "seed": seed, "i": i, "n": n, "out": out, "replay_dir": os.path.dirname(out) + "/replays", "budget_s": 0,
         "repo_rev": "selftest", "det_check": 0, "dump": True, "max_cases": 12, "mode": "sim", "work_dir": os.path.dirname(out)}
    if extra:
        j.update(extra)
    return j


def determinism(chk, seed):
    """Same (seed, case) executed in many fresh processes at GOMAXPROCS 1/4/16: every fingerprint line must be identical."""
    sys.path.insert(0, os.path.join(chk.VERIF, "lib"))
    import engine_toolsim, engine_libsim
    sc = chk.Scratch("determinism")
    t0 = time.time()
    try:
        repo, _ = chk.prepare(sc, "sched")
        bins = {"detectsim": chk.build_harness(sc, repo, "detectsim")}
        bins["rdgen"] = engine_toolsim.build(chk, sc, repo, "rdgen")
        bins["rddetector"] = engine_toolsim.build(chk, sc, repo, "rddetector")
        prepo, _ = chk.prepare(sc, "preempt")
        bins["libsim"] = chk.build_harness(sc, prepo, "libsim")
        plans = [("C07", "detectsim"), ("C11", "detectsim"), ("C08", "detectsim"), ("C09", "detectsim"), ("C10", "detectsim"), ("C14", "detectsim"), ("C20", "rdgen"), ("C13", "rddetector"), ("C18", "libsim")]
        reps = [(1, 0), (1, 1), (4, 0), (4, 1), (16, 0), (16, 1)]
        procs = []
        for prop, eng in plans:
            for part in range(3):  # three different slices of the plan
                for gmp, rep in reps:
                    wd = os.path.join(sc.dir, "det", "%s-%d-%d-%d" % (prop, part, gmp, rep))
                    os.makedirs(wd)
                    out = os.path.join(wd, "out.json")
                    job = _job(prop, "quick", seed, part, 16, out, {"max_cases": 16 if eng != "rddetector" else 6})
                    jp = os.path.join(wd, "job.json")
                    json.dump(job, open(jp, "w"))
                    env = dict(chk.ENV)
                    env["VERIF_JOB"] = jp
                    env["GOMAXPROCS"] = str(gmp)
                    procs.append((prop, part, gmp, rep, out, subprocess.Popen([bins[eng], "-test.run", "TestBatch", "-test.timeout", "20m"], cwd=wd, env=env,
                                                                             stdout=open(os.path.join(wd, "log.txt"), "w"), stderr=subprocess.STDOUT)))
                    while sum(1 for p in procs if p[5].poll() is None) >= chk.NPROC:
                        time.sleep(0.05)
        ref, bad, nlines, nproc = {}, [], 0, 0
        for prop, part, gmp, rep, out, p in procs:
            rc = p.wait()
            nproc += 1
            if rc != 0 or not os.path.exists(out):
                chk.die("determinism self-test: engine process failed (%s part %d GOMAXPROCS=%d): %s" % (prop, part, gmp, open(os.path.join(os.path.dirname(out), "log.txt")).read()[-2000:]))
            d = json.load(open(out))
            lines = d.get("dump") or []
            nlines += len(lines)
            k = (prop, part)
            if k not in ref:
                ref[k] = (lines, gmp, rep)
            elif ref[k][0] != lines:
                diff = [(a, b) for a, b in zip(ref[k][0], lines) if a != b][:3]
                bad.append("%s part %d: GOMAXPROCS=%d rep %d differs from GOMAXPROCS=%d rep %d: %s" % (prop, part, gmp, rep, ref[k][1], ref[k][2], diff))
        print("determinism self-test: %d processes, %d fingerprint lines, %d slices, GOMAXPROCS in {1,4,16}, %.1fs" % (nproc, nlines, len(ref), time.time() - t0))
        if bad:
            print("\n".join(bad))
            print("DETERMINISM FAILURE")
            return 2
        print("determinism self-test: all executions identical")
        return 0
    finally:
        sc.cleanup()


def sensitivity(chk, seed, only=None):
    """Every catalogue mutant must be reported by its property's quick check; the unpatched tree must stay silent."""
    idx = json.load(open(os.path.join(chk.VERIF, "mutants", "index.json")))
    extra = []
    for meta in sorted(glob.glob(os.path.join(chk.VERIF, "seeded", "*", "meta.json"))):
        m = json.load(open(meta))
        d = os.path.dirname(meta)
        extra.append({"name": "seeded/" + os.path.basename(d), "property": m["property"], "what": m.get("what", ""), "patch": os.path.join(d, "patch.diff"), "expect": m.get("expect", "detected")})
    rows = []
    # VERIF_SENS_SHARD=i/n: this process takes every n-th of the patches not named in VERIF_SENS_SKIP (a file of
    # names already done) and writes mutants/last_sensitivity.shard<i>.json; tools/merge_sensitivity.py joins them
    shard = os.environ.get("VERIF_SENS_SHARD")
    skip = set()
    if os.environ.get("VERIF_SENS_SKIP"):
        skip = set(l.strip() for l in open(os.environ["VERIF_SENS_SKIP"]) if l.strip())
    todo = [m for m in idx + extra if m["name"] not in skip]
    if shard:
        si, sn = [int(x) for x in shard.split("/")]
        todo = [m for k, m in enumerate(todo) if k % sn == si]
    for m in todo:
        if only and only not in m["name"]:
            continue
        patch = m.get("patch") or os.path.join(chk.VERIF, "mutants", m["name"] + ".patch")
        tmp = tempfile.mkdtemp(prefix="verif-mut-")
        try:
            repo = os.path.join(tmp, "repo")
            subprocess.check_call(["rsync", "-a", "--exclude", ".git", chk.REPO + "/", repo + "/"])
            r = subprocess.run(["patch", "-p1", "-s", "-i", patch], cwd=repo, capture_output=True, text=True)
            if r.returncode != 0:
                rows.append((m["name"], m["property"], "PATCH-DOES-NOT-APPLY", r.stdout[-300:] + r.stderr[-300:]))
                continue
            env = dict(os.environ)
            env["VERIF_REPO"] = repo
            env["VERIF_SEED"] = str(seed)
            t0 = time.time()
            props = m["property"].split(",")
            res = []
            for prop in props:
                p = subprocess.run([os.path.join(chk.VERIF, "check"), prop, "--tier", "quick", "--no-evidence"], env=env, capture_output=True, text=True)
                v = [l for l in p.stdout.splitlines() if l.startswith("VIOLATION")]
                clause = [l.strip() for l in p.stdout.splitlines() if l.strip().startswith("clause=")]
                res.append((prop, p.returncode, len(v), clause[0][:160] if clause else ""))
            det = any(rc == 1 and nv > 0 for _, rc, nv, _ in res)
            trouble = any(rc not in (0, 1) for _, rc, _, _ in res)
            status = "DETECTED" if det else ("TROUBLE(exit 2)" if trouble else "MISSED")
            rows.append((m["name"], m["property"], status, "; ".join("%s rc=%d viol=%d %s" % r for r in res) + " (%.0fs)" % (time.time() - t0)))
        finally:
            shutil.rmtree(tmp, ignore_errors=True)
        print("%-40s %-8s %-18s %s" % rows[-1])
        sys.stdout.flush()
    if shard:
        json.dump({"seed": seed, "rows": [{"name": r[0], "property": r[1], "status": r[2], "detail": r[3]} for r in rows]},
                  open(os.path.join(chk.VERIF, "mutants", "last_sensitivity.shard%d.json" % si), "w"), indent=1, ensure_ascii=False)
    elif not only:
        json.dump({"seed": seed, "rows": [{"name": r[0], "property": r[1], "status": r[2], "detail": r[3]} for r in rows]},
                  open(os.path.join(chk.VERIF, "mutants", "last_sensitivity.json"), "w"), indent=1, ensure_ascii=False)
    missed = [r for r in rows if r[2] != "DETECTED"]
    print("sensitivity self-test: %d mutants, %d detected, %d not" % (len(rows), len(rows) - len(missed), len(missed)))
    return 0 if not missed else 3


def main(chk, name, seed):
    if name == "selftest-determinism":
        return determinism(chk, seed)
    if name.startswith("selftest-sensitivity"):
        only = name.split(":", 1)[1] if ":" in name else None
        return sensitivity(chk, seed, only)
    chk.die("unknown selftest " + name)
