"""lib-sim engine driver: C18. See DESIGN.md §3.3, §4.8. Also hosts the race monitor helper used by C08."""
import os, json, time, subprocess, re

RULE = "cases = (2..8 (thorough ..64) callers, each 1-2 calls out of a catalogue of the 15 registry runners, Round12/Round15 and the parameterised byte/bit entry points; 1-3 inputs shared between callers; preemption quantum 17..70000 loop-head ticks; seeded scheduling policy); oracle = bit-identical to the solitary call, inputs unchanged; distinct_nontrivial = distinct (configuration, event-trace hash) among executions with >= 1 step at which >= 2 callers were runnable"

COMPONENTS = {"real": ["every library test function and round function from the working tree, with a preemption tick inserted at each loop head of the root and fft packages"],
              "stub": ["goroutine scheduling (seeded controller, quantum-preemptive)", "inputs (seeded generator)"]}


def warmup(chk, sc):
    repo, _ = chk.prepare(sc, "preempt")
    chk.build_harness(sc, repo, "libsim")


def race_build(chk, sc, engine):
    """pristine copy of the working tree (+ the inactive simrt package), harness built with -race"""
    repo = os.path.join(sc.dir, "repo-pristine")
    if not os.path.isdir(repo):
        repo, _ = chk.prepare(sc, "pristine", instrument=False)
    h = os.path.join(sc.dir, "hr-" + engine)
    os.makedirs(h)
    import shutil
    shutil.copytree(os.path.join(chk.VERIF, "harness", engine), os.path.join(h, engine))
    with open(os.path.join(h, "go.mod"), "w") as f:
        f.write("module verifharness\n\ngo 1.26\n\nrequire github.com/Trisia/randomness v0.0.0\n\nreplace github.com/Trisia/randomness => %s\n" % repo)
    binp = os.path.join(h, engine + ".race.test")
    env = dict(chk.ENV)
    env["CGO_ENABLED"] = "1"
    rc, o = chk.run([chk.GO, "test", "-race", "-c", "-o", binp, "./" + engine], cwd=h, env=env)
    if rc != 0:
        chk.die("race monitor for %s does not build:\n%s" % (engine, o))
    return binp


def race_run(chk, binp, work, prop, tier, seed, rev, replay_dir, budget_s, extra_env=None):
    """runs the race monitor on 1/2/4/16 CPUs; returns (outs, races) where races are detector reports"""
    procs = []
    cpus = [1, 2, 4, 16] if chk.NPROC >= 16 else [1, 2]
    for i, nc in enumerate(cpus):
        out = os.path.join(work, "race_out_%d.json" % i)
        wd = os.path.join(work, "race_wd_%d" % i)
        os.makedirs(wd, exist_ok=True)
        job = {"prop": prop, "tier": tier, "seed": seed, "i": i, "n": len(cpus), "out": out, "replay_dir": replay_dir,
               "budget_s": budget_s, "repo_rev": rev, "det_check": 0, "mode": "race", "work_dir": wd}
        jp = os.path.join(work, "race_job_%d.json" % i)
        json.dump(job, open(jp, "w"))
        env = dict(chk.ENV)
        env["VERIF_JOB"] = jp
        env["GORACE"] = "halt_on_error=0 exitcode=0"
        if extra_env:
            env.update(extra_env)
        lp = os.path.join(work, "race_log_%d.txt" % i)
        cmd = ["taskset", "-c", "0-%d" % (nc - 1), binp, "-test.run", "TestBatch", "-test.timeout", "40m"]
        procs.append((subprocess.Popen(cmd, cwd=work, env=env, stdout=open(lp, "w"), stderr=subprocess.STDOUT), lp, out, nc))
    outs, races, bad = [], [], []
    for p, lp, out, nc in procs:
        rc = p.wait()
        log = open(lp).read()
        for m in re.finditer(r"WARNING: DATA RACE.*?={10,}", log, re.S):
            races.append({"cpus": nc, "report": m.group(0)[:6000]})
        if not os.path.exists(out):
            m = re.search(r"^(panic: .*|fatal error: .*)$", log, re.M)
            if m and "repo-pristine" in log:
                # real goroutines: a panic in a worker of the code under test kills the process. That is a finding
                # about the code (the simulation captures the same panic per task), not harness trouble.
                races.append({"cpus": nc, "crash": m.group(1), "report": "CRASH " + m.group(1) + "\n" + log[log.find(m.group(1)):][:5000]})
            else:
                bad.append((nc, rc, log[-3000:]))
        else:
            outs.append(json.load(open(out)))
    return outs, races, bad


def race_found(chk, prop, seed, races, replay_dir):
    """turns race reports into one Found record per distinct racing location pair"""
    found = {}
    for r in races:
        if "crash" in r:
            key = "crash-under-real-scheduler"
            if key not in found:
                path = os.path.join(replay_dir, "%s-%d-racemon-crash.json" % (prop, seed))
                json.dump({"property": prop, "clause": key, "seed": seed, "cpus": r["cpus"], "note": "the race-monitor process (pristine packages, real goroutines) died with a panic", "report": r["report"]}, open(path, "w"), indent=1)
                found[key] = {"prop": prop, "clause": key, "detail": "process running the pristine packages with real goroutines (%d CPUs) died: %s" % (r["cpus"], r["crash"]), "workflow": "race-monitor", "replay": path, "case_idx": -1, "count": 1, "minimised": False}
            else:
                found[key]["count"] += 1
            continue
        locs = re.findall(r"\n\s+(\S+\.go:\d+)", r["report"])
        repo_locs = [l for l in locs if "/repo-pristine/" in l and "/simrt/" not in l]
        key = "race:" + ",".join(sorted(set(os.path.basename(l) for l in repo_locs[:2]))) if repo_locs else "race:harness-only"
        if key in found:
            found[key]["count"] += 1
            continue
        path = os.path.join(replay_dir, "%s-%d-race-%s.json" % (prop, seed, re.sub(r"[^A-Za-z0-9]", "_", key)[:60]))
        json.dump({"property": prop, "clause": key, "seed": seed, "cpus": r["cpus"], "note": "race detector report on the pristine packages; the schedule is not controlled, re-run ./check %s to look for it again" % prop, "report": r["report"]}, open(path, "w"), indent=1)
        found[key] = {"prop": prop, "clause": key, "detail": "data race reported by the race detector on the pristine packages (%d CPUs): %s" % (r["cpus"], " / ".join(repo_locs[:4])), "workflow": "race-monitor", "replay": path, "case_idx": -1, "count": 1, "minimised": False}
    return list(found.values())


def main(chk, a, tier, seed):
    t0 = time.time()
    prop = a.prop
    sc = chk.Scratch(prop)
    try:
        repo, istats = chk.prepare(sc, "preempt")
        san = chk.sanity_proc(repo)
        binp = chk.build_harness(sc, repo, "libsim")
        work = os.path.join(sc.dir, "work")
        os.makedirs(work)
        replay_dir = os.path.join(chk.VERIF, "replays")
        os.makedirs(replay_dir, exist_ok=True)
        rev = chk.repo_rev()
        n = 1 if a.replay else chk.NPROC
        budget = a.budget or chk.default_budget(prop, tier)
        jobs = []
        for i in range(n):
            jobs.append({"prop": prop, "tier": tier, "seed": seed, "i": i, "n": n, "out": os.path.join(work, "out_%d.json" % i),
                         "replay_dir": replay_dir, "budget_s": budget, "repo_rev": rev, "det_check": 10 if tier == "quick" else 40,
                         "replay": os.path.abspath(a.replay) if a.replay else "", "mode": "sim"})
        import threading
        race = {}

        def race_thread():
            try:
                rbin = race_build(chk, sc, "libsim")
                race["res"] = race_run(chk, rbin, work, prop, "quick" if tier == "quick" else "racethorough", seed, rev, replay_dir, 45 if tier == "quick" else 900)
            except SystemExit as e:
                race["exit"] = e.code

        th = None
        if not a.replay:
            th = threading.Thread(target=race_thread)
            th.start()
        refdir = os.path.join(work, "refs")
        os.makedirs(refdir)
        outs, bad = chk.launch(binp, jobs, work, 6 * 3600 if tier == "thorough" else 1500, extra_env={"VERIF_REF_DIR": refdir})
        nrefs = len([f for f in os.listdir(refdir) if f.endswith(".json")])
        chk.sanity_verdict(san, sc)
        if th is not None:
            th.join()
        if bad:
            chk.die("engine process trouble: %s" % "\n".join("proc %d rc=%s\n%s" % b for b in bad))
        extra_cov = {"reference_results_from_fresh_processes": nrefs}
        if th is not None:
            if "res" not in race:
                chk.die("race monitor could not be built or run")
            routs, races, rbad = race["res"]
            if rbad:
                chk.die("race monitor trouble: %s" % "\n".join("cpus %d rc=%s\n%s" % b for b in rbad))
            rf = race_found(chk, prop, seed, races, replay_dir)
            rcalls = sum((o.get("extra") or {}).get("library_calls", 0) for o in routs)
            rmis = []
            for o in routs:
                rmis += o.get("found") or []
            extra_cov["race_monitor"] = {"executions": sum(o["executions"] for o in routs), "library_calls": rcalls, "cpu_counts": [1, 2, 4, 16], "races_reported": len(races),
                                         "note": "auxiliary monitor: pristine packages, go test -race, real goroutines, schedule not controlled"}
            outs.append({"found": rf + rmis, "cases": 0, "executions": 0, "steps": 0, "choices": 0})
        return chk.finish(prop, tier, seed, t0, outs, istats, a, components=COMPONENTS, rule=RULE, extra_cov=extra_cov)
    finally:
        sc.cleanup()
